"""Attribute-level snapshot of a component tree taken WITHOUT calling icalendar code.

Only C-level container reads (OrderedDict.items, list iteration), __dict__ reads and
datetime methods are used, so taking a snapshot cannot change what it observes and a
snapshot before/after an operation shows exactly what the operation mutated.
"""
from collections import OrderedDict
from datetime import date, datetime, time, timedelta

from .values import describe


def snap_value(v, depth=0):
    if depth > 6:
        return ["<deep>"]
    if v is None or isinstance(v, (bool,)) and type(v) is bool:
        return v
    if isinstance(v, (datetime, date, time, timedelta)):
        return describe(v)
    t = type(v).__name__
    if isinstance(v, (list, tuple)):
        return [t] + [snap_value(x, depth + 1) for x in v]
    out = [t]
    if isinstance(v, str):
        out.append(str.__str__(v))
    elif isinstance(v, bytes):
        out.append(v.decode("latin-1"))
    elif isinstance(v, bool):
        out.append(bool(int.__int__(v)))
    elif isinstance(v, int):
        out.append(int.__int__(v))
    elif isinstance(v, float):
        out.append(repr(float.__float__(v)))
    if isinstance(v, dict):
        out.append([[snap_value(k, depth + 1), snap_value(x, depth + 1)] for k, x in OrderedDict.items(v)]
                   if isinstance(v, OrderedDict) else
                   [[snap_value(k, depth + 1), snap_value(x, depth + 1)] for k, x in dict.items(v)])
    d = getattr(v, "__dict__", None)
    if d:
        attrs = []
        for k, x in d.items():
            if k.startswith("_"):
                continue
            attrs.append([k, snap_value(x, depth + 1)])
        out.append(["attrs", attrs])
    return out


def snap_component(c, depth=0):
    props = []
    # the C-level items() of whichever built-in mapping the component class is built on
    for k, v in (OrderedDict if isinstance(c, OrderedDict) else dict).items(c):
        props.append([k, snap_value(v)])
    return {
        "cls": type(c).__name__,
        "name": c.__dict__.get("name", getattr(type(c), "name", None)),
        "props": props,
        "errors": [list(e) if isinstance(e, tuple) else e for e in c.__dict__.get("errors", [])],
        "subs": [snap_component(s, depth + 1) for s in c.__dict__.get("subcomponents", [])],
    }


def balanced(data):
    """10-line stack machine: output lines form a balanced, properly nested BEGIN/END sequence."""
    stack = []
    text = data.decode("utf-8", "replace").replace("\r\n ", "").replace("\r\n\t", "")
    for line in text.split("\r\n"):
        if line.startswith("BEGIN:"):
            stack.append(line[6:])
        elif line.startswith("END:"):
            if not stack or stack.pop() != line[4:]:
                return False
    return not stack


def wire_tzids(data):
    """TZID parameter values on the wire (own mini scanner; no icalendar code)."""
    text = data.decode("utf-8", "replace").replace("\r\n ", "").replace("\r\n\t", "")
    out = []
    for line in text.split("\r\n"):
        head = _head(line)
        for part in _split_params(head)[1:]:
            if part.upper().startswith("TZID="):
                # TZID=a,"b" is a list of ids
                cur, inq = "", False
                for ch in part[5:] + ",":
                    if ch == '"':
                        inq = not inq
                    elif ch == "," and not inq:
                        out.append(cur)
                        cur = ""
                    else:
                        cur += ch
    return out


def _head(line):
    inq = False
    for i, ch in enumerate(line):
        if ch == '"':
            inq = not inq
        elif ch == ":" and not inq:
            return line[:i]
    return line


def _split_params(head):
    parts, cur, inq = [], "", False
    for ch in head:
        if ch == '"':
            inq = not inq
        if ch == ";" and not inq:
            parts.append(cur)
            cur = ""
        else:
            cur += ch
    parts.append(cur)
    return parts


def wire_tree(data):
    """Parse serialised bytes into nested [name, [(prop name, value text)], [children]] with an
    own mini scanner (unfold, split, BEGIN/END stack).  Returns None when not balanced."""
    text = data.decode("utf-8", "replace").replace("\r\n ", "").replace("\r\n\t", "")
    root = ["<root>", [], []]
    stack = [root]
    for line in text.split("\r\n"):
        if not line:
            continue
        if line.startswith("BEGIN:"):
            node = [line[6:], [], []]
            stack[-1][2].append(node)
            stack.append(node)
        elif line.startswith("END:"):
            if len(stack) < 2 or stack[-1][0] != line[4:]:
                return None
            stack.pop()
        else:
            head = _head(line)
            name = _split_params(head)[0]
            stack[-1][1].append((name, line[len(head) + 1:]))
    if len(stack) != 1:
        return None
    return root
