"""Self-tests of the harness itself (DESIGN.md section 3.8).

  check selftest determinism [IDs]   same seeds twice, 1 vs N workers, harness hash seed 0 vs 12345
  check selftest mutants [IDs]       every /verif/mutants/<ID>-*.diff must be detected by the quick tier
  check selftest seeded [IDs]        every /verif/seeded/<name>/patch.diff: report which checks catch it
  check selftest benign [IDs]        property-preserving changes in mutants/benign/ must NOT raise an alarm
  check selftest sweep [seeds] [IDs] quick tier under several VERIF_SEEDs must stay silent (default seeds 1-5)
  check selftest restart             soft restart vs a fresh interpreter (C12, C04)
  check selftest schema              committed evidence files validate against the schema
"""
import glob
import json
import os
import re
import shutil
import subprocess
import sys
import tempfile

from . import engine

ALL = ["C04", "C10", "C12", "C16", "C17", "C18"]
VERIF = engine.VERIF


def _run(prop, tier, env_extra, capture=True):
    env = dict(os.environ)
    env.update(env_extra)
    cp = subprocess.run([os.path.join(VERIF, "check"), "run", prop, "--tier", tier], env=env, cwd=VERIF,
                        capture_output=capture, text=True)
    return cp.returncode, cp.stdout + (cp.stderr or "")


def _digest(out):
    m = re.search(r"digest=([0-9a-f]+)", out)
    return m.group(1) if m else None


def determinism(props):
    bad = 0
    for prop in props:
        if not os.path.exists(os.path.join(VERIF, "icalsim", "props", prop.lower() + ".py")):
            continue
        variants = [
            ("workers=16", {"VERIF_WORKERS": "16"}),
            ("workers=16 again", {"VERIF_WORKERS": "16"}),
            ("workers=1", {"VERIF_WORKERS": "1"}),
            ("workers=5, harness PYTHONHASHSEED=12345", {"VERIF_WORKERS": "5", "VERIF_HARNESS_HASHSEED": "12345",
                                                        "PYTHONHASHSEED": "12345"}),
        ]
        digs = []
        for name, env in variants:
            with tempfile.TemporaryDirectory() as td:
                # keep the committed evidence file untouched: selftests write to a scratch evidence dir
                env = dict(env, VERIF_EVIDENCE_DIR=td, VERIF_REPLAY_DIR=td)
                rc, out = _run(prop, "selftest", env)
            d = _digest(out)
            digs.append(d)
            print(f"[selftest] determinism {prop} {name}: rc={rc} digest={d}", flush=True)
        if len(set(digs)) != 1 or digs[0] is None:
            print(f"[selftest] determinism {prop}: FAILED {digs}")
            bad += 1
        else:
            print(f"[selftest] determinism {prop}: ok")
    return 1 if bad else 0


def scratch_tree(patch):
    """Copy of the tree under test outside /repo and /verif with `patch` applied."""
    base = tempfile.mkdtemp(prefix="icalsim-mutant-", dir="/tmp")
    shutil.copytree(os.path.join(engine.repo_path(), "src"), os.path.join(base, "src"),
                    ignore=shutil.ignore_patterns("__pycache__"))
    cp = subprocess.run(["patch", "-p1", "-s", "--no-backup-if-mismatch", "-i", os.path.abspath(patch)],
                        cwd=base, capture_output=True, text=True)
    if cp.returncode != 0:
        shutil.rmtree(base, ignore_errors=True)
        raise RuntimeError(f"patch {patch} does not apply: {cp.stdout} {cp.stderr}")
    subprocess.run(["git", "init", "-q"], cwd=base, capture_output=True)
    return base


def mutants(props, tier="quick"):
    missed = []
    total = 0
    for patch in sorted(glob.glob(os.path.join(VERIF, "mutants", "*.diff"))):
        name = os.path.basename(patch)
        prop = name.split("-")[0]
        if props and not any(name.startswith(p) for p in props):
            continue
        total += 1
        try:
            base = scratch_tree(patch)
        except RuntimeError as e:
            # the tree moved on under the patch (a later fix touched the same lines): regenerate it
            print(f"[selftest] mutant {name}: STALE - {str(e)[:200]}", flush=True)
            missed.append(name)
            continue
        try:
            with tempfile.TemporaryDirectory() as td:
                rc, out = _run(prop, tier, {"VERIF_REPO": base, "VERIF_EVIDENCE_DIR": td, "VERIF_REPLAY_DIR": td})
        finally:
            shutil.rmtree(base, ignore_errors=True)
        sigs = re.findall(r"violation signature: (\S+)", out)
        caught = rc == 1 and "VIOLATION property=" in out
        print(f"[selftest] mutant {name}: {'caught' if caught else 'MISSED'} rc={rc} {sigs[:3]}", flush=True)
        if not caught:
            missed.append(name)
            print(out[-1500:])
    print(f"[selftest] mutants: {total - len(missed)}/{total} caught; missed: {missed}")
    return 1 if missed else 0


def benign(props, tier="quick"):
    """Property-preserving changes (refactorings, an improvement, other message texts, another deterministic
    order): the checks of the properties named in the file name must stay silent (exit 0)."""
    bad = 0
    total = 0
    for patch in sorted(glob.glob(os.path.join(VERIF, "mutants", "benign", "*.diff"))):
        name = os.path.basename(patch)
        for prop in name.split("-")[0].split("+"):
            if props and prop not in props:
                continue
            total += 1
            try:
                base = scratch_tree(patch)
            except RuntimeError as e:
                print(f"[selftest] benign {name}: STALE - {str(e)[:200]}", flush=True)
                bad += 1
                continue
            try:
                with tempfile.TemporaryDirectory() as td:
                    rc, out = _run(prop, tier, {"VERIF_REPO": base, "VERIF_EVIDENCE_DIR": td, "VERIF_REPLAY_DIR": td})
            finally:
                shutil.rmtree(base, ignore_errors=True)
            sigs = re.findall(r"violation signature: (\S+)", out)
            print(f"[selftest] benign {name} on {prop}: {'silent' if rc == 0 else 'ALARM'} rc={rc} {sigs[:3]}", flush=True)
            if rc != 0:
                bad += 1
                print("\n".join(l[:500] for l in out.splitlines() if "detail" in l or "HARNESS" in l)[:2500])
    print(f"[selftest] benign: {total - bad}/{total} silent")
    return 1 if bad else 0


def seeded(names, tier="quick"):
    """Run the checks of the property a seeded change breaks against that change."""
    rows = []
    for d in sorted(glob.glob(os.path.join(VERIF, "seeded", "*", ""))):
        name = os.path.basename(os.path.dirname(d))
        if names and name not in names:
            continue
        meta = json.load(open(os.path.join(d, "meta.json")))
        prop = meta["property"]
        if meta.get("superseded"):
            # the change is no longer a regression on the repaired tree (kept for the record)
            print(f"[selftest] seeded {name} ({prop}): superseded - {meta['superseded'][:160]}", flush=True)
            continue
        if not os.path.exists(os.path.join(VERIF, "icalsim", "props", prop.lower() + ".py")):
            rows.append((name, prop, "not claimed (N/A)"))
            continue
        try:
            base = scratch_tree(os.path.join(d, "patch.diff"))
        except RuntimeError as e:
            print(f"[selftest] seeded {name} ({prop}): STALE - {str(e)[:200]}", flush=True)
            continue
        try:
            with tempfile.TemporaryDirectory() as td:
                rc, out = _run(prop, tier, {"VERIF_REPO": base, "VERIF_EVIDENCE_DIR": td, "VERIF_REPLAY_DIR": td})
        finally:
            shutil.rmtree(base, ignore_errors=True)
        sigs = re.findall(r"violation signature: (\S+)", out)
        verdict = "caught" if rc == 1 else ("harness-error" if rc == 2 else "missed")
        rows.append((name, prop, f"{verdict} {sigs[:2]}"))
        hist = re.findall(r"needs (\d+) earlier run", out)
        meta.setdefault("detected_by", {})[f"./check run {prop} --tier {tier}"] = {
            "verdict": verdict, "signatures": sigs[:4],
            "needs_earlier_runs_in_same_interpreter": int(hist[0]) if hist else 0}
        json.dump(meta, open(os.path.join(d, "meta.json"), "w"), indent=1, ensure_ascii=False)
        print(f"[selftest] seeded {name} ({prop}): {verdict} {sigs[:3]}", flush=True)
    return 0


def restart(props, n=60):
    """Soft-restart fidelity: the observations of a self-contained suffix S executed after
    `prefix + soft_restart` in ONE interpreter must equal those of S executed alone in a FRESH
    interpreter (same provider).  Tests the assumption that soft_restart() leaves no library state
    behind that a real process restart would have wiped."""
    from . import rng as R
    self_contained = {"C12": ("parse", "convert", "provider_switch", "soft_restart"),
                      "C04": ("deliver", "isolate", "provider_switch", "soft_restart", "tzdb_view")}
    bad = 0
    for prop in props:
        if prop not in self_contained:
            continue
        mod = engine.load_mod(prop)
        cfg = dict(mod.TIERS["selftest"])
        compared = differing = 0
        soft_pool = engine.ServePool(prop)
        i = 0
        try:
            while compared < n and i < 4000:
                run = mod.generate(R.rng_for(777, prop, i), dict(cfg, _index=i))
                i += 1
                tr = run["trace"]
                cut = [k for k, st in enumerate(tr) if st[1] == "soft_restart"]
                if not cut or cut[-1] == 0 or cut[-1] == len(tr) - 1:
                    continue
                k = cut[-1]
                prefix, suffix = tr[:k], [st for st in tr[k + 1:] if st[1] in self_contained[prop]]
                if not suffix:
                    continue
                provider = run["cfg"]["provider"]
                for st in prefix:
                    if st[1] == "provider_switch":
                        provider = st[2]["p"]
                view = "default"
                for st in prefix:
                    if st[1] == "tzdb_view":
                        view = st[2]["view"]
                if view != "default":
                    suffix = [["env", "tzdb_view", {"view": view}]] + suffix
                soft_run = dict(run, trace=prefix + [tr[k]] + suffix)
                hard_run = dict(run, cfg=dict(run["cfg"], provider=provider), trace=suffix)
                a = soft_pool.execute(0, soft_run, with_obs=True)
                hard_pool = engine.ServePool(prop)
                try:
                    b = hard_pool.execute(0, hard_run, with_obs=True)
                finally:
                    hard_pool.close()
                if a.get("harness_error") or b.get("harness_error"):
                    print(f"[selftest] restart {prop} run {i - 1}: harness error {a.get('harness_error') or b.get('harness_error')}")
                    bad += 1
                    continue
                off = len(prefix) + 1
                oa = [[o[0] - off, o[1], o[2]] for o in a["obs"] if o[0] >= off]
                ob = b["obs"]
                compared += 1
                if oa != ob:
                    differing += 1
                    d = engine.first_diff(oa, ob)
                    print(f"[selftest] restart {prop} run {i - 1}: soft and fresh interpreter differ: {str(d)[:500]}")
        finally:
            soft_pool.close()
        print(f"[selftest] restart {prop}: {compared} suffixes compared, {differing} differ")
        if differing or compared == 0:
            bad += 1
    return 1 if bad else 0


def sweep(args):
    """No-false-alarm sweep: the quick tier of every claimed property under several VERIF_SEEDs on the
    tree under test; any exit status other than 0 is reported."""
    seeds = [a for a in args if a.isdigit()] or ["1", "2", "3", "4", "5"]
    props = [a for a in args if not a.isdigit()] or ALL
    bad = 0
    for seed in seeds:
        for prop in props:
            with tempfile.TemporaryDirectory() as td:
                rc, out = _run(prop, "quick", {"VERIF_SEED": seed, "VERIF_EVIDENCE_DIR": td, "VERIF_REPLAY_DIR": td})
            sigs = re.findall(r"violation signature: (\S+)", out)
            print(f"[selftest] sweep VERIF_SEED={seed} {prop}: rc={rc} {sigs[:3]}", flush=True)
            if rc != 0:
                bad += 1
                print("\n".join(l[:400] for l in out.splitlines() if "HARNESS" in l or "detail" in l)[:2000])
    print(f"[selftest] sweep: {len(seeds) * len(props) - bad}/{len(seeds) * len(props)} runs clean")
    return 1 if bad else 0


def schema():
    try:
        import jsonschema
    except ImportError:  # jsonschema lives in the tooling venv only
        return subprocess.run(["python3-vt", "-c",
                               "import sys; sys.path.insert(0, %r); from icalsim import selftest; "
                               "sys.exit(selftest.schema())" % VERIF]).returncode
    sch = json.load(open("/root/.vp/EVIDENCE.schema.json"))
    bad = 0
    for f in sorted(glob.glob(os.path.join(VERIF, "evidence", "*.json"))):
        try:
            jsonschema.validate(json.load(open(f)), sch)
            print(f"[selftest] schema {os.path.basename(f)}: ok")
        except Exception as e:
            print(f"[selftest] schema {os.path.basename(f)}: INVALID {e}")
            bad += 1
    try:
        jsonschema.validate(json.load(open(os.path.join(VERIF, "MANIFEST.json"))),
                            json.load(open("/root/.vp/MANIFEST.schema.json")))
        print("[selftest] schema MANIFEST.json: ok")
    except Exception as e:
        print(f"[selftest] schema MANIFEST.json: INVALID {str(e)[:300]}")
        bad += 1
    return 1 if bad else 0


def main(argv):
    what = argv[0] if argv else "determinism"
    props = [a for a in argv[1:] if not a.startswith("--")]
    tier = "quick"
    if "--tier" in argv:
        tier = argv[argv.index("--tier") + 1]
        props = [p for p in props if p != tier]
    if what == "determinism":
        return determinism(props or ALL)
    if what == "mutants":
        return mutants(props, tier)
    if what == "seeded":
        return seeded(props, tier)
    if what == "schema":
        return schema()
    if what == "benign":
        return benign(props, tier)
    if what == "sweep":
        return sweep(argv[1:])
    if what == "restart":
        return restart(props or ["C12", "C04"])
    print(__doc__)
    return 2
