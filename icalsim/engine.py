"""Orchestrator: seeds, fan-out, merge, lock-step comparison, minimisation, replay, evidence."""
import concurrent.futures as cf
import importlib
import json
import os
import shutil
import subprocess
import sys
import tempfile
import time
from collections import Counter

from . import rng as R
from . import shrink

VERIF = os.path.dirname(os.path.dirname(os.path.abspath(__file__)))
PY = "/venv/bin/python"
DEFAULT_SEED = 20261002

EXIT_OK, EXIT_VIOLATION, EXIT_HARNESS = 0, 1, 2


def repo_path():
    return os.environ.get("VERIF_REPO", "/repo")


# An incarnation of the simulated process differs from the base incarnation (hash seed 0, local time UTC) in the
# interpreter's hash seed AND in the local time zone of the process: neither may show in what a history produces.
LOCAL_ZONES = ["UTC", "Asia/Tokyo", "America/New_York", "Europe/Berlin", "Australia/Lord_Howe", "Asia/Kolkata",
               "America/St_Johns", "Pacific/Chatham"]


def worker_env(hash_seed):
    env = dict(os.environ)
    env["PYTHONHASHSEED"] = str(hash_seed)
    env["TZ"] = LOCAL_ZONES[int(hash_seed) % len(LOCAL_ZONES)]
    env["PYTHONPATH"] = os.path.join(repo_path(), "src") + os.pathsep + VERIF
    env["VERIF_REPO"] = repo_path()
    env["PYTHONDONTWRITEBYTECODE"] = "1"
    env.pop("PYTHONSTARTUP", None)
    return env


def load_mod(prop):
    return importlib.import_module(f"icalsim.props.{prop.lower()}")


def load_known_file():
    try:
        return json.load(open(os.path.join(VERIF, "known_findings.json")))
    except FileNotFoundError:
        return {"findings": [], "fixed": []}


def tree_info():
    repo = repo_path()
    def git(*a):
        try:
            return subprocess.run(["git", "-C", repo, *a], capture_output=True, text=True,
                                  timeout=30).stdout.strip()
        except Exception:
            return ""
    return {"path": repo, "commit": git("rev-parse", "HEAD"),
            "dirty": bool(git("status", "--porcelain", "--untracked-files=no"))}


# ---------------------------------------------------------------------------
# serve workers (minimisation and replay)

class ServePool:
    def __init__(self, prop):
        self.prop = prop
        self.procs = {}

    def _get(self, hs):
        p = self.procs.get(hs)
        if p is None or p.poll() is not None:
            p = subprocess.Popen([PY, os.path.join(VERIF, "icalsim", "worker.py"), "serve", self.prop],
                                 stdin=subprocess.PIPE, stdout=subprocess.PIPE, text=True,
                                 env=worker_env(hs), cwd=VERIF)
            self.procs[hs] = p
        return p

    def execute(self, hs, run, unmask=(), with_obs=False, timeout=120, history=()):
        p = self._get(hs)
        req = json.dumps({"run": run, "unmask": list(unmask), "with_obs": with_obs, "history": list(history)})
        try:
            p.stdin.write(req + "\n")
            p.stdin.flush()
            line = _readline_timeout(p, timeout)
        except (BrokenPipeError, OSError):
            line = None
        if not line:
            try:
                p.kill()
            except Exception:
                pass
            self.procs.pop(hs, None)
            return {"violations": [], "known": {}, "obs_digest": None, "harness_error": "worker died or timed out",
                    "dead": True}
        return json.loads(line)

    def close(self):
        for p in self.procs.values():
            try:
                p.stdin.write(json.dumps({"quit": True}) + "\n")
                p.stdin.flush()
                p.wait(timeout=5)
            except Exception:
                try:
                    p.kill()
                except Exception:
                    pass
        self.procs = {}


def _readline_timeout(p, timeout):
    import select
    r, _, _ = select.select([p.stdout], [], [], timeout)
    if not r:
        return None
    return p.stdout.readline()


# ---------------------------------------------------------------------------
# batch fan-out

def _run_job(job):
    prop, seed, hs, start, count, tier, out, per_run, timeout = job
    cmd = [PY, os.path.join(VERIF, "icalsim", "worker.py"), "batch", prop, "--seed", str(seed),
           "--start", str(start), "--count", str(count), "--tier", tier, "--out", out]
    if per_run:
        cmd.append("--per-run")
    t0 = time.time()
    try:
        cp = subprocess.run(cmd, env=worker_env(hs), cwd=VERIF, capture_output=True, text=True,
                            timeout=timeout)
        rc, err = cp.returncode, cp.stderr[-3000:]
    except subprocess.TimeoutExpired as e:
        rc, err = -9, f"worker timed out after {timeout}s: {str(e.stderr)[-2000:] if e.stderr else ''}"
    if rc != 0 or not os.path.exists(out):
        return {"job": job, "failed": True, "rc": rc, "stderr": err, "wall": time.time() - t0}
    rep = json.load(open(out))
    os.unlink(out)
    rep["job_wall"] = time.time() - t0
    return rep


def fan_out(prop, seed, tier, cfg, per_run, workers):
    runs = int(os.environ.get("VERIF_RUNS", cfg["runs"]))
    chunk = int(cfg.get("chunk", 200))
    hash_seeds = list(cfg.get("hash_seeds", [0]))
    tmp = tempfile.mkdtemp(prefix=f"icalsim-{prop}-")
    jobs = []
    for start in range(0, runs, chunk):          # all incarnations of one chunk are scheduled together
        for hs in hash_seeds:
            n = min(chunk, runs - start)
            out = os.path.join(tmp, f"{hs}-{start}.json")
            jobs.append((prop, seed, hs, start, n, tier, out, per_run, cfg.get("timeout", 900)))
    reports = []
    max_wall = float(os.environ.get("VERIF_MAX_WALL", cfg.get("max_wall", 0)) or 0)
    t0 = time.time()
    truncated = False
    try:
        with cf.ThreadPoolExecutor(max_workers=workers) as ex:
            futs = [ex.submit(_run_job, j) for j in jobs]
            done = 0
            nviol = 0
            for f in cf.as_completed(futs):
                if f.cancelled():
                    continue
                rep = f.result()
                reports.append(rep)
                done += 1
                nviol += len(rep.get("violations", [])) if not rep.get("failed") else 0
                if done % max(1, len(jobs) // 10) == 0:
                    print(f"[icalsim] progress: {done}/{len(jobs)} worker jobs done, {nviol} violation report(s) so far, "
                          f"{time.time() - t0:.0f}s", flush=True)
                if max_wall and not truncated and time.time() - t0 > max_wall:
                    truncated = True
                    for g in futs:
                        g.cancel()
    finally:
        shutil.rmtree(tmp, ignore_errors=True)
    if truncated:
        # keep only chunks that completed under every hash seed, and only the leading contiguous ones
        ok = {}
        for r in reports:
            if not r.get("failed"):
                ok.setdefault(r["start"], set()).add(int(r["hash_seed"]))
        complete = 0
        for start in range(0, runs, chunk):
            if ok.get(start) == set(hash_seeds):
                complete = start + min(chunk, runs - start)
            else:
                break
        failed = [r for r in reports if r.get("failed")]
        reports = [r for r in reports if not r.get("failed") and r["start"] < complete] + failed
        print(f"[icalsim] wall-clock cap of {max_wall:.0f}s reached: {complete} of {runs} runs completed "
              f"(reported as such in the evidence)", flush=True)
        runs = complete
    reports.sort(key=lambda r: (int(r["hash_seed"]), r["start"]) if not r.get("failed")
                 else (int(r["job"][2]), r["job"][3]))
    return reports, runs, hash_seeds


# ---------------------------------------------------------------------------
# minimisation

def first_diff(obs_a, obs_b):
    for i, (x, y) in enumerate(zip(obs_a, obs_b)):
        if x != y:
            return i, x, y
    if len(obs_a) != len(obs_b):
        i = min(len(obs_a), len(obs_b))
        return i, (obs_a[i] if i < len(obs_a) else None), (obs_b[i] if i < len(obs_b) else None)
    return None


def lockstep_sig(prop, pool, run, h1, h2):
    a = pool.execute(h1, run, with_obs=True)
    b = pool.execute(h2, run, with_obs=True)
    if a.get("harness_error") or b.get("harness_error"):
        return None, f"harness error in lock-step replay: {a.get('harness_error') or b.get('harness_error')}"
    d = first_diff(a["obs"], b["obs"])
    if d is None:
        return None, "no difference"
    i, x, y = d
    op = (x or y)[1]
    return f"{prop}/hashseed/{op}", {"obs_index": i, f"hashseed_{h1}": x, f"hashseed_{h2}": y}


def fresh_execute(prop, hs, run, unmask=(), history=()):
    """Execute in a brand-new interpreter (no state left over from earlier requests)."""
    pool = ServePool(prop)
    try:
        return pool.execute(hs, run, unmask=unmask, history=history, timeout=300)
    finally:
        pool.close()


def minimise_history(prop, mod, run, sig, hs, earlier, budget_n=120):
    """The violation needs runs executed earlier in the same interpreter: minimise the list of earlier
    runs (each candidate in a fresh interpreter), then the steps of the failing run itself."""
    budget = shrink.Budget(budget_n)

    def fails(hist, r):
        res = fresh_execute(prop, hs, r, unmask=[sig], history=hist)
        return any(v["sig"] == sig for v in res["violations"])

    if not budget.take() or not fails(earlier, run):
        return run, [], {"reproduced": False, "executions": budget.used}
    hist = list(earlier)
    if hist:
        hist = shrink.ddmin(hist, lambda h: fails(h, run), budget) if len(hist) > 1 else hist
        if len(hist) == 1 and budget.take() and fails([], run):
            hist = []
    trace = shrink.ddmin(run["trace"], lambda t: fails(hist, dict(run, trace=t)), budget)
    # shorten the earlier runs too
    for i in range(len(hist)):
        ht = shrink.ddmin(hist[i]["trace"],
                          lambda t, i=i: fails(hist[:i] + [dict(hist[i], trace=t)] + hist[i + 1:], dict(run, trace=trace)),
                          budget)
        hist[i] = dict(hist[i], trace=ht)
    return dict(run, trace=trace), hist, {"reproduced": True, "executions": budget.used,
                                          "from_steps": len(run["trace"]), "to_steps": len(trace),
                                          "earlier_runs_needed": len(hist), "earlier_runs_from": len(earlier)}


def history_diff_sig(prop, run, history, hs, unmask=()):
    """Observe `run` after `history` in one fresh interpreter and alone in another; the signature names the
    first operation whose observation differs (None when they agree)."""
    def ex(hist):
        pool = ServePool(prop)
        try:
            return pool.execute(hs, run, unmask=unmask, with_obs=True, history=hist, timeout=300)
        finally:
            pool.close()
    a, b = ex(history), ex([])
    if a.get("harness_error") or b.get("harness_error") or a.get("obs") is None or b.get("obs") is None:
        return None, "harness error"
    d = first_diff(a["obs"], b["obs"])
    if d is None:
        return None, "no difference"
    i, x, y = d
    return f"{prop}/process-history/{(x or y)[1]}", {"obs_index": i, "after_earlier_runs": x, "alone_in_fresh_interpreter": y}


def minimise_history_diff(prop, run, earlier, hs, unmask, budget_n=40):
    sig, detail = history_diff_sig(prop, run, earlier, hs, unmask)
    if sig is None:
        return None, detail, run, earlier, {}
    budget = shrink.Budget(budget_n)
    hist = shrink.ddmin(list(earlier), lambda h: history_diff_sig(prop, run, h, hs, unmask)[0] == sig, budget) \
        if len(earlier) > 1 else list(earlier)
    for k in range(len(hist)):
        ht = shrink.ddmin(hist[k]["trace"],
                          lambda t, k=k: history_diff_sig(prop, run, hist[:k] + [dict(hist[k], trace=t)] + hist[k + 1:],
                                                          hs, unmask)[0] == sig, budget)
        hist[k] = dict(hist[k], trace=ht)
    trace = shrink.ddmin(run["trace"], lambda t: history_diff_sig(prop, dict(run, trace=t), hist, hs, unmask)[0] == sig,
                         budget)
    small = dict(run, trace=trace)
    sig2, detail = history_diff_sig(prop, small, hist, hs, unmask)
    return sig, detail, small, hist, {"executions": budget.used, "earlier_runs_from": len(earlier),
                                      "earlier_runs_needed": len(hist), "from_steps": len(run["trace"]),
                                      "to_steps": len(trace)}


def minimise(prop, mod, pool, run, sig, kind, hash_seeds, budget_n=400):
    budget = shrink.Budget(budget_n)

    def test(trace):
        cand = dict(run, trace=trace)
        if kind == "lockstep":
            s, _ = lockstep_sig(prop, pool, cand, hash_seeds[0], hash_seeds[1])
            return s == sig
        r = pool.execute(hash_seeds[0], cand, unmask=[sig])
        return any(v["sig"] == sig for v in r["violations"])

    if not test(run["trace"]):
        return run, {"reproduced": False, "executions": budget.used}
    trace = shrink.ddmin(run["trace"], test, budget)
    simplify = getattr(mod, "simplify_step", None)
    if simplify is not None:
        trace = shrink.shrink_steps(trace, test, simplify, budget)
        trace = shrink.ddmin(trace, test, budget)
    return dict(run, trace=trace), {"reproduced": True, "executions": budget.used,
                                    "from_steps": len(run["trace"]), "to_steps": len(trace)}


def write_replay(prop, seed, index, hash_seeds, kind, sig, detail, run, info, subdir="", history=None):
    d = os.path.join(os.environ.get("VERIF_REPLAY_DIR") or os.path.join(VERIF, "replays"), subdir)
    os.makedirs(d, exist_ok=True)
    name = f"{prop}-{seed}-{index}-{R.digest(sig)[:8]}.json"
    path = os.path.join(d, name)
    with open(path, "w") as f:
        json.dump({"property": prop, "verif_seed": seed, "run_index": index, "hash_seeds": hash_seeds,
                   "kind": kind, "signature": sig, "detail": detail, "minimised": info, "run": run,
                   "history": history or []},
                  f, indent=1, sort_keys=True)
    return path


def replay_file(path, quiet=False):
    """Execute the literal trace in fresh interpreters. Returns (reproduced, text)."""
    rp = json.load(open(path))
    prop = rp["property"]
    pool = ServePool(prop)
    try:
        if rp["kind"] == "lockstep":
            h1, h2 = rp["hash_seeds"][:2]
            sig, detail = lockstep_sig(prop, pool, rp["run"], h1, h2)
            ok = sig == rp["signature"]
            return ok, {"signature": sig, "detail": detail}
        if rp["kind"] == "history-diff":
            sig, detail = history_diff_sig(prop, rp["run"], rp.get("history", []), rp["hash_seeds"][0])
            return sig == rp["signature"], {"signature": sig, "detail": detail}
        r = pool.execute(rp["hash_seeds"][0], rp["run"], unmask=[rp["signature"]], history=rp.get("history", []))
        if r.get("harness_error"):
            return False, {"harness_error": r["harness_error"]}
        for v in r["violations"]:
            if v["sig"] == rp["signature"]:
                return True, {"signature": v["sig"], "detail": v["detail"], "step": v["step"]}
        return False, {"signature": None, "others": [v["sig"] for v in r["violations"]]}
    finally:
        pool.close()


# ---------------------------------------------------------------------------
# main entry

def run_check(prop, tier):
    t0 = time.time()
    seed = int(os.environ.get("VERIF_SEED", DEFAULT_SEED))
    mod = load_mod(prop)
    cfg = dict(mod.TIERS[tier])
    workers = int(os.environ.get("VERIF_WORKERS", os.cpu_count() or 4))
    lockstep = len(cfg.get("hash_seeds", [0])) > 1
    print(f"[icalsim] property={prop} tier={tier} VERIF_SEED={seed} repo={repo_path()} "
          f"workers={workers} hash_seeds={cfg.get('hash_seeds', [0])}", flush=True)
    reports, runs, hash_seeds = fan_out(prop, seed, tier, cfg, lockstep or bool(os.environ.get("VERIF_PER_RUN")),
                                        workers)

    harness_rc = EXIT_OK
    failed = [r for r in reports if r.get("failed")]
    if failed:
        for r in failed[:3]:
            print(f"HARNESS-ERROR: worker job {r['job'][:5]} rc={r['rc']}\n{r['stderr']}", flush=True)
        harness_rc = EXIT_HARNESS
        # what the other workers found is still processed below: a confirmed violation outranks this
        reports = [r for r in reports if not r.get("failed")]
        if not reports:
            return EXIT_HARNESS
    herrs = [e for r in reports for e in r["harness_errors"]]
    if herrs:
        for e in herrs[:2]:
            print(f"HARNESS-ERROR: run index {e['index']}:\n{e['error']}", flush=True)
        harness_rc = EXIT_HARNESS

    known_file = load_known_file()
    listed = [f for f in known_file.get("findings", []) if f["property"] == prop]
    known_sigs = {s for f in listed for s in f.get("signatures", [])}

    ops, faults, probes, known_counts = Counter(), Counter(), Counter(), Counter()
    states, nontrivial = set(), set()
    steps = 0
    violations = []
    known_examples = {}
    for r in reports:
        ops.update(r["ops"]); faults.update(r["faults"]); probes.update(r["probes"])
        known_counts.update(r["known"])
        states.update(r["states"]); nontrivial.update(r["nontrivial"])
        steps += r["steps"]
        violations.extend(dict(v, hash_seed=int(r["hash_seed"])) for v in r["violations"])
        for k, ex in r["known_examples"].items():
            known_examples.setdefault(k, ex)

    overall = R.digest([[r["hash_seed"], r["start"], r["agg_digest"]] for r in reports])

    # --- lock-step comparison across interpreter incarnations -------------
    lock_viol = []
    lock_compared = 0
    pool = ServePool(prop)
    try:
        if lockstep:
            per = {}
            for r in reports:
                for i, sched, obs in r["runs"]:
                    per.setdefault(i, []).append((int(r["hash_seed"]), sched, obs))
            mismatch = []
            for i in sorted(per):
                entries = sorted(per[i])
                lock_compared += 1
                if len({e[1] for e in entries}) != 1:
                    print(f"HARNESS-ERROR: run {i} generated different traces under different hash seeds",
                          flush=True)
                    return EXIT_HARNESS
                if len({e[2] for e in entries}) != 1:
                    base = entries[0]
                    other = next(e for e in entries if e[2] != base[2])
                    mismatch.append((i, base[0], other[0]))
            probes["lockstep_mismatching_runs"] += len(mismatch)
            unexplained = 0
            for i, h1, h2 in mismatch[:int(cfg.get("lockstep_explain_cap", 300))]:
                run = mod.generate(R.rng_for(seed, prop, i), dict(cfg, _index=i))
                sig, detail = lockstep_sig(prop, pool, run, h1, h2)
                if sig is None:
                    print(f"HARNESS-ERROR: lock-step mismatch of run {i} not reproducible: {detail}", flush=True)
                    return EXIT_HARNESS
                if sig in known_sigs:
                    known_counts[sig] += 1
                    known_examples.setdefault(sig, {"index": i, "run": run, "detail": json.dumps(detail)[:600],
                                                    "hash_seeds": [h1, h2]})
                else:
                    unexplained += 1
                    if len(lock_viol) < 3:
                        lock_viol.append({"index": i, "run": run, "sig": sig, "detail": detail,
                                          "hash_seeds": [h1, h2]})

        # --- process-history independence ----------------------------------
        # The last runs of every chunk were executed after all other runs of the chunk in the same
        # interpreter.  Executed alone in a fresh interpreter they must be observed identically: a difference
        # means an answer depends on what the process did before - state the library keeps somewhere the
        # simulated process start does not reset (for C10/C12/C18/C04 that is the property itself; for C16/C17 it contradicts "a function of the edit history").
        hist_viol = []
        hist_checked = 0
        if getattr(mod, "HISTORY_CHECK", False) and not os.environ.get("VERIF_NO_HISTORY_CHECK"):
            hs0 = hash_seeds[0]
            tails = [(r["start"], t) for r in reports if int(r["hash_seed"]) == hs0 for t in r.get("tail_runs", [])]
            tails = tails[:int(cfg.get("history_check_cap", 64))]

            def _fresh(item):
                start, (i, sched, obs) = item
                run = mod.generate(R.rng_for(seed, prop, i), dict(cfg, _index=i))
                res = fresh_execute(prop, hs0, run, unmask=sorted(known_sigs))
                return start, i, obs, run, res
            with cf.ThreadPoolExecutor(max_workers=max(1, min(8, workers // 2))) as ex:
                for start, i, obs, run, res in ex.map(_fresh, tails):
                    hist_checked += 1
                    if res.get("harness_error") or res.get("obs_digest") == obs:
                        continue
                    hist_viol.append({"index": i, "start": start, "run": run})
            probes["history_independence_checked"] += hist_checked
        for hv in hist_viol[:2]:
            earlier = [mod.generate(R.rng_for(seed, prop, j), dict(cfg, _index=j)) for j in range(hv["start"], hv["index"])]
            sig, detail, small_run, small_hist, info = minimise_history_diff(prop, hv["run"], earlier, hash_seeds[0],
                                                                             sorted(known_sigs))
            if sig is None:
                print(f"HARNESS-ERROR: run {hv['index']} was observed differently after its chunk than alone, but the "
                      f"difference did not reproduce in fresh interpreters", flush=True)
                harness_rc = max(harness_rc, EXIT_HARNESS)
                continue
            violations.append({"index": hv["index"], "run": small_run, "sig": sig, "step": 0, "detail": detail,
                               "hash_seed": hash_seeds[0], "history": small_hist, "history_diff": True, "info": info})

        # --- minimise and report ------------------------------------------
        rc = harness_rc
        reported = []
        seen = set()
        todo = []
        for v in violations:
            if v["sig"] not in seen:
                seen.add(v["sig"])
                todo.append(("invariant", v, [v.get("hash_seed", hash_seeds[0])]))
        for v in lock_viol:
            if v["sig"] not in seen:
                seen.add(v["sig"])
                todo.append(("lockstep", v, v["hash_seeds"]))
        for kind, v, hss in todo[:4]:
            if v.get("history_diff"):
                path = write_replay(prop, seed, v["index"], hss, "history-diff", v["sig"], v["detail"], v["run"],
                                    v["info"], history=v["history"])
                ok, text = replay_file(path)
                if not ok:
                    print(f"HARNESS-ERROR: history replay {path} did not reproduce: {text}", flush=True)
                    rc = max(rc, EXIT_HARNESS)
                    continue
                print(f"[icalsim] violation signature: {v['sig']}", flush=True)
                print(f"[icalsim] detail: {json.dumps(text)[:1500]}", flush=True)
                print(f"[icalsim] the run is observed differently after {len(v['history'])} earlier run(s) in the same "
                      f"interpreter than alone in a fresh one ({v['info']})", flush=True)
                print(f"VIOLATION property={prop} replay={path}", flush=True)
                reported.append({"sig": v["sig"], "replay": path})
                continue
            small, info = minimise(prop, mod, pool, v["run"], v["sig"], kind, hss,
                                   int(cfg.get("shrink_budget", 400)))
            history = []
            if not info.get("reproduced") and kind == "invariant":
                # does it need what the same worker interpreter executed before this run?
                chunk = int(cfg.get("chunk", 200))
                first = (v["index"] // chunk) * chunk
                earlier = [mod.generate(R.rng_for(seed, prop, j), dict(cfg, _index=j)) for j in range(first, v["index"])]
                small, history, info = minimise_history(prop, mod, v["run"], v["sig"], hss[0], earlier)
                if info.get("reproduced"):
                    kind = "history"
            if not info.get("reproduced"):
                print(f"HARNESS-ERROR: violation {v['sig']} of run {v['index']} did not reproduce in a fresh "
                      f"interpreter; detail: {v['detail']}", flush=True)
                rc = max(rc, EXIT_HARNESS)
                continue
            path = write_replay(prop, seed, v["index"], hss, kind, v["sig"], v["detail"], small, info,
                                history=history)
            ok, text = replay_file(path)
            if not ok and kind == "invariant":
                # the persistent minimisation worker carried state from one candidate to the next (the change
                # under test keeps process-wide state the harness does not know): minimise again with a
                # fresh interpreter per candidate, including what ran earlier in the batch worker
                os.unlink(path)
                chunk = int(cfg.get("chunk", 200))
                first = (v["index"] // chunk) * chunk
                earlier = [mod.generate(R.rng_for(seed, prop, j), dict(cfg, _index=j)) for j in range(first, v["index"])]
                small, history, info = minimise_history(prop, mod, v["run"], v["sig"], hss[0], earlier)
                if info.get("reproduced"):
                    kind = "history"
                    path = write_replay(prop, seed, v["index"], hss, kind, v["sig"], v["detail"], small, info,
                                        history=history)
                    ok, text = replay_file(path)
            if not ok:
                print(f"HARNESS-ERROR: minimised replay {path} did not reproduce: {text}", flush=True)
                rc = max(rc, EXIT_HARNESS)
                continue
            print(f"[icalsim] violation signature: {v['sig']}", flush=True)
            print(f"[icalsim] detail: {json.dumps(text)[:1500]}", flush=True)
            print(f"[icalsim] minimised {info['from_steps']} -> {info['to_steps']} steps "
                  f"in {info['executions']} executions"
                  + (f"; needs {info['earlier_runs_needed']} earlier run(s) in the same interpreter "
                     f"(of {info['earlier_runs_from']})" if kind == "history" else ""), flush=True)
            print(f"VIOLATION property={prop} replay={path}", flush=True)
            reported.append({"sig": v["sig"], "replay": path})
        if reported:
            rc = EXIT_VIOLATION   # a confirmed, replayable violation outranks a harness error elsewhere
        # opt-in: write a minimised example replay for every listed known finding observed in this run
        if os.environ.get("VERIF_KNOWN_EXAMPLES"):
            for f in listed:
                for sg in f.get("signatures", []):
                    ex = known_examples.get(sg)
                    if not ex:
                        continue
                    hss = ex.get("hash_seeds") or [hash_seeds[0]]
                    kind = "lockstep" if len(hss) > 1 else "invariant"
                    small, info = minimise(prop, mod, pool, ex["run"], sg, kind, hss,
                                           int(cfg.get("shrink_budget", 400)))
                    if info.get("reproduced"):
                        pth = write_replay(prop, seed, ex["index"], hss, kind, sg, ex.get("detail"), small, info,
                                           subdir="known")
                        print(f"[icalsim] known-finding example for {sg}: {pth}", flush=True)
    finally:
        pool.close()

    for f in listed:
        n = sum(known_counts.get(s, 0) for s in f.get("signatures", []))
        print(f"KNOWN-FINDING: property={prop} {f['id']}: {f['what']} "
              f"[observed {n} time(s) in this run]", flush=True)

    wall = time.time() - t0
    evals = runs * len(hash_seeds)
    samples = []
    for i in range(min(3, runs)):
        run = mod.generate(R.rng_for(seed, prop, i), dict(cfg, _index=i))
        samples.append({"run_index": i, "cfg": run.get("cfg"), "trace": _clip(run["trace"])})
    state_total = getattr(mod, "STATE_SPACE", None)
    evidence = {
        "property_id": prop, "tier": tier if tier in ("quick", "thorough") else "quick", "seed": seed,
        "level": "exploration",
        "coverage": {
            "evaluations": evals,
            "distinct_nontrivial": len(nontrivial),
            "rule": mod.RULE,
            "samples": samples,
            "runs": runs, "hash_seeds": hash_seeds, "run_index_range": [0, runs - 1],
            "incarnations": [{"hash_seed": h, "TZ": LOCAL_ZONES[int(h) % len(LOCAL_ZONES)]} for h in hash_seeds],
            "logical_steps": steps,
            "runs_per_hour": int(evals / wall * 3600) if wall > 0 else 0,
            "simulated_time": f"none - no clock in scope of the property; logical steps = {steps}",
            "ops": dict(sorted(ops.items())), "faults_fired": dict(sorted(faults.items())),
            "probes": dict(sorted(probes.items())),
            "state_coverage": {"measure": getattr(mod, "STATE_MEASURE", "abstract states"),
                               "covered": len([s for s in states if not s.startswith("cov:")]),
                               "total": state_total},
            "transition_coverage": {"measure": getattr(mod, "COV_MEASURE", "op kind x argument class x "
                                                       "abstract pre-state triples reached"),
                                    "covered": len([s for s in states if s.startswith("cov:")]),
                                    "total": getattr(mod, "COV_SPACE", None)},
            "lockstep_runs_compared": lock_compared,
            "history_independence_runs_checked": hist_checked,
            "known_findings": {k: known_counts[k] for k in sorted(known_counts)},
            "observation_digest": overall,
            "real_components": ["icalendar (tree under test)", "python-dateutil", "pytz", "zoneinfo (C)",
                                "tzdata / system tz database"],
            "harness_components": getattr(mod, "HARNESS_COMPONENTS",
                                          ["clients", "scheduler", "reference model", "process lifecycle"]),
            "tree_under_test": tree_info(),
            "violations_reported": reported,
        },
        "assumptions": list(getattr(mod, "ASSUMPTIONS", [])),
        "wall_s": round(wall, 2),
        "violations": len(reported),
    }
    zero = [p for p in getattr(mod, "REQUIRED_PROBES", {}).get(tier, []) if probes.get(p, 0) == 0]
    evidence["coverage"]["probes_stuck_at_zero"] = zero
    evdir = os.environ.get("VERIF_EVIDENCE_DIR") or os.path.join(VERIF, "evidence")
    if tier in ("quick", "thorough") or os.environ.get("VERIF_EVIDENCE_DIR"):
        # the small 'selftest' tier never overwrites the evidence of a real run
        os.makedirs(evdir, exist_ok=True)
        with open(os.path.join(evdir, f"{prop}.json"), "w") as f:
            json.dump(evidence, f, indent=1, sort_keys=True)
    print(f"[icalsim] {prop}: runs={runs} x hash_seeds={len(hash_seeds)} steps={steps} "
          f"distinct_nontrivial={len(nontrivial)} states={len(states)} wall={wall:.1f}s "
          f"digest={overall} violations={len(reported)}", flush=True)
    if zero:
        print(f"[icalsim] WARNING probes stuck at zero: {zero}", flush=True)
    return rc


def _clip(trace, n=14):
    t = trace[:n]
    s = json.dumps(t)
    if len(s) > 6000:
        t = json.loads(json.dumps(t[:4]))
        s = json.dumps(t)
        if len(s) > 6000:
            return [f"<{len(trace)} steps; first step {s[:3000]}...>"]
    if len(trace) > len(t):
        t = t + [f"... {len(trace) - len(t)} more steps"]
    return t
