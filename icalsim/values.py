"""Literal (JSON-able) specs for the Python values that traces carry.

A trace must be executable in any interpreter from its text alone, so every
argument is a small tagged list:

  ["n"]                                   None
  ["i", 5]  ["f", 1.5]  ["B", true]       int / float / bool
  ["s", "text"]                           str
  ["b", "latin-1 text"]                   bytes
  ["date", y, m, d]
  ["dt", y, m, d, H, M, S, tz]            tz: null | ["utc"] | ["zi", key] | ["pytz", key]
                                              | ["du", key] | ["fixed", minutes] | ["fixed", minutes, name]
                                              | ["simdst"] (a hand-written tzinfo with two names and offsets)
                                              | ["zi", key, 1] = fold=1: the second of two equal wall-clock times
  ["date", y, m, d, "sub"]  ["dt", ..., tz, "sub"]
                                          the same value as an instance of a subclass of date / datetime
                                          (what freezegun, pandas or pendulum hand to the library)
  ["time", H, M, S]
  ["td", days, seconds]  ["td", days, seconds, microseconds]
  ["list", [spec, ...]]
  ["period", dtspec, dtspec-or-tdspec]
  ["recur", {"FREQ": [..], ...}]          values are plain JSON (str/int) lists
  ["v", clsname, spec]                    a raw icalendar value object, e.g. vDatetime(dt)
"""
from datetime import date, datetime, time, timedelta, timezone


class SubDate(date):
    """A date of a subclass, as other libraries hand them out."""


class SubDatetime(datetime):
    """A datetime of a subclass, as other libraries hand them out."""


class SimDST(__import__("datetime").tzinfo):
    """A hand-written zone as client code has them: +01:30 'SWT', +02:30 'SST' from April to September.
    Hashable by identity; no library can identify it."""

    def _summer(self, dt):
        return dt is not None and 4 <= dt.month <= 9

    def utcoffset(self, dt):
        return timedelta(minutes=150 if self._summer(dt) else 90)

    def dst(self, dt):
        return timedelta(minutes=60 if self._summer(dt) else 0)

    def tzname(self, dt):
        return "SST" if self._summer(dt) else "SWT"


SIMDST = SimDST()


def tz_of(spec):
    if spec is None:
        return None
    kind = spec[0]
    if kind == "utc":
        return timezone.utc
    if kind == "zi":
        import zoneinfo
        return zoneinfo.ZoneInfo(spec[1])
    if kind == "pytz":
        import pytz
        return pytz.timezone(spec[1])
    if kind == "du":
        import dateutil.tz
        return dateutil.tz.gettz(spec[1])
    if kind == "fixed":
        if len(spec) > 2 and spec[2]:
            return timezone(timedelta(minutes=spec[1]), spec[2])
        return timezone(timedelta(minutes=spec[1]))
    if kind == "simdst":
        return SIMDST
    raise ValueError(f"bad tz spec {spec!r}")


def to_py(spec):
    kind = spec[0]
    if kind == "n":
        return None
    if kind in ("i", "f", "B", "s"):
        return spec[1]
    if kind == "b":
        return spec[1].encode("latin-1")
    if kind == "date":
        return (SubDate if spec[-1] == "sub" else date)(spec[1], spec[2], spec[3])
    if kind == "dt":
        naive = (SubDatetime if spec[-1] == "sub" else datetime)(*spec[1:7])
        tzs = spec[7] if len(spec) > 7 else None
        if tzs is None:
            return naive
        tz = tz_of(tzs)
        if tzs[0] == "pytz":
            return tz.localize(naive)
        if tzs[0] == "zi" and len(tzs) > 2 and tzs[2]:
            return naive.replace(tzinfo=tz, fold=1)
        return naive.replace(tzinfo=tz)
    if kind == "time":
        return time(spec[1], spec[2], spec[3])
    if kind == "td":
        return timedelta(days=spec[1], seconds=spec[2], microseconds=spec[3] if len(spec) > 3 else 0)
    if kind == "list":
        return [to_py(s) for s in spec[1]]
    if kind == "period":
        return (to_py(spec[1]), to_py(spec[2]))
    if kind == "recur":
        from icalendar.prop import vRecur
        return vRecur({k: list(v) for k, v in spec[1].items()})
    if kind == "v":
        import icalendar.prop as P
        cls = getattr(P, spec[1])
        return cls(to_py(spec[2]))
    raise ValueError(f"bad value spec {spec!r}")


def is_date_spec(spec):
    return spec[0] == "date"


def is_dt_spec(spec):
    return spec[0] == "dt"


def dt_class(spec):
    """'date' | 'floating' | 'utc' | 'zoned' for date/datetime specs."""
    if spec[0] == "date":
        return "date"
    tzs = spec[7] if len(spec) > 7 else None
    if tzs is None:
        return "floating"
    if tzs[0] == "utc":
        return "utc"
    return "zoned"


OFFSETS = True   # C04 switches this off: utcoffset() of a zone built from a hostile VTIMEZONE may not terminate


def describe(obj):
    """A hash-seed independent, library-free description of a Python value.

    Used for observation logs and model comparison.  Never calls icalendar code
    (only attribute reads), so taking it cannot change what it observes.
    """
    if obj is None or isinstance(obj, (bool, int, float)):
        return obj
    if isinstance(obj, str):
        return ["s", str.__str__(obj)] if type(obj) is str else [type(obj).__name__, str.__str__(obj)]
    if isinstance(obj, bytes):
        return ["b", obj.decode("latin-1")]
    if isinstance(obj, datetime):
        off = None
        name = None
        if obj.tzinfo is not None and not OFFSETS:
            name = tz_label(obj.tzinfo)
        elif obj.tzinfo is not None:
            try:
                o = obj.utcoffset()
                off = None if o is None else int(o.total_seconds())
            except Exception as e:  # pragma: no cover - exotic tzinfo
                off = f"!{type(e).__name__}"
            name = tz_label(obj.tzinfo)
        return ["dt", obj.year, obj.month, obj.day, obj.hour, obj.minute, obj.second, off, name]
    if isinstance(obj, date):
        return ["date", obj.year, obj.month, obj.day]
    if isinstance(obj, time):
        return ["time", obj.hour, obj.minute, obj.second]
    if isinstance(obj, timedelta):
        return ["td", obj.days, obj.seconds] + ([obj.microseconds] if obj.microseconds else [])
    if isinstance(obj, (list, tuple)):
        return [type(obj).__name__] + [describe(x) for x in obj]
    if isinstance(obj, dict):
        return ["dict"] + [[describe(k), describe(v)] for k, v in obj.items()]
    return ["?", type(obj).__name__]


def tz_label(tz):
    if tz is None:
        return None
    for attr in ("key", "zone", "_tzid"):
        v = getattr(tz, attr, None)
        if isinstance(v, str):
            return f"{type(tz).__module__.split('.')[0]}:{v}"
    if tz is timezone.utc:
        return "datetime:UTC"
    return type(tz).__name__


def strip_labels(d):
    """Drop the tzinfo label from described date-times (wall fields and UTC offset stay)."""
    if isinstance(d, list):
        if d and d[0] == "dt" and len(d) == 9:
            return d[:8]
        return [strip_labels(x) for x in d]
    return d


def describe_plain(obj):
    return strip_labels(describe(obj))
