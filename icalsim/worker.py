"""Worker interpreter: hosts the real icalendar and executes runs.

  worker.py batch PROP --seed S --start A --count N --tier T --out FILE [--per-run]
  worker.py serve PROP          (stdin: one JSON request per line; stdout: one JSON reply per line)

Started by the orchestrator with an explicit PYTHONHASHSEED and
PYTHONPATH=<tree under test>/src:/verif.
"""
import faulthandler
import hashlib
import importlib
import json
import os
import sys
import time
import traceback
from collections import Counter

HERE = os.path.dirname(os.path.abspath(__file__))
if os.path.dirname(HERE) not in sys.path:
    sys.path.insert(0, os.path.dirname(HERE))

from icalsim import rng as R            # noqa: E402
from icalsim import world               # noqa: E402
from icalsim.result import RunResult    # noqa: E402


def load_known(prop):
    path = os.path.join(os.path.dirname(HERE), "known_findings.json")
    try:
        data = json.load(open(path))
    except FileNotFoundError:
        return set()
    return {s for f in data.get("findings", []) if f["property"] == prop
            for s in f.get("signatures", [])}


def execute_run(mod, run, known):
    res = RunResult(known)
    try:
        world.reset_world(run.get("cfg", {}).get("provider", "zoneinfo"))
        mod.execute(run, res)
    except BaseException as e:
        if isinstance(e, (KeyboardInterrupt, SystemExit)):
            raise
        frames = traceback.extract_tb(e.__traceback__)
        lib = [f for f in frames if "/icalendar/" in f.filename.replace("\\", "/") and "/icalsim/" not in f.filename]
        inner_is_harness = bool(frames) and "/icalsim/" in frames[-1].filename
        if lib and not inner_is_harness:
            # raised inside the library (or below it) during an operation where the workload expects no
            # exception at all: on a tree where the property holds this never happens, so it is a verdict
            # about the library, not a harness bug
            where = f"{lib[-1].filename.replace(chr(92), '/').split('/icalendar/')[-1]}:{lib[-1].name}"
            res.violate(f"{getattr(mod, 'ID', '?')}/unexpected-exception:{type(e).__name__}@{where}",
                        max(res.steps - 1, 0), "".join(traceback.format_exception(type(e), e, e.__traceback__))[-1200:])
        else:  # harness bug, never a property verdict
            res.harness_error = "".join(traceback.format_exception(type(e), e, e.__traceback__))[-3000:]
    return res


def sig64(s):
    return int.from_bytes(hashlib.sha256(s.encode()).digest()[:8], "big")


def batch(prop, mod, a):
    known = load_known(prop)
    tier_cfg = dict(mod.TIERS[a.tier])
    ops, faults, probes = Counter(), Counter(), Counter()
    states = set()
    nontrivial = set()
    runs = []
    tail_runs = []
    violations = []
    known_counts = Counter()
    known_examples = {}
    harness_errors = []
    steps = 0
    agg = hashlib.sha256()
    t0 = time.time()
    run_timeout = int(tier_cfg.get("run_timeout", 300))
    for i in range(a.start, a.start + a.count):
        g = R.rng_for(a.seed, prop, i)
        run = mod.generate(g, dict(tier_cfg, _index=i))
        # a hang inside the harness itself (outside any budgeted operation) must not stall the batch
        # silently: dump where it is and exit, which the orchestrator reports as a harness error
        sys.stderr.write(f"[worker] run {i}\n") if os.environ.get("VERIF_TRACE_RUNS") else None
        faulthandler.dump_traceback_later(run_timeout, exit=True)
        try:
            res = execute_run(mod, run, known)
        finally:
            faulthandler.cancel_dump_traceback_later()
        sched = R.digest(run)
        s = res.summary()
        agg.update(f"{i}:{sched}:{s['obs_digest']};".encode())
        if a.per_run:
            runs.append([i, sched, s["obs_digest"]])
        if i >= a.start + a.count - 2:
            tail_runs.append([i, sched, s["obs_digest"]])     # the runs with the longest process history
        ops.update(res.ops)
        faults.update(res.faults)
        probes.update(res.probes)
        states.update(res.states)
        steps += res.steps
        if res.nontrivial:
            nontrivial.add(sig64(mod.abstract_sig(run)))
        if res.harness_error:
            if len(harness_errors) < 3:
                harness_errors.append({"index": i, "error": res.harness_error, "run": run})
        for v in res.violations:
            if len(violations) < 12:
                violations.append({"index": i, "run": run, **v})
        for k, n in res.known.items():
            known_counts[k] += n
            if k not in known_examples:
                known_examples[k] = {"index": i, "run": run, **res.known_example[k]}
    out = {
        "prop": prop, "hash_seed": os.environ.get("PYTHONHASHSEED"), "start": a.start,
        "count": a.count, "agg_digest": agg.hexdigest()[:24], "runs": runs, "tail_runs": tail_runs,
        "ops": dict(ops), "faults": dict(faults), "probes": dict(probes),
        "states": sorted(states), "nontrivial": sorted(nontrivial),
        "violations": violations, "known": dict(known_counts),
        "known_examples": known_examples, "harness_errors": harness_errors,
        "steps": steps, "wall": time.time() - t0,
    }
    tmp = a.out + ".tmp"
    with open(tmp, "w") as f:
        json.dump(out, f)
    os.replace(tmp, a.out)


def serve(prop, mod):
    known = load_known(prop)
    for line in sys.stdin:
        line = line.strip()
        if not line:
            continue
        req = json.loads(line)
        if req.get("quit"):
            break
        # the signature being minimised / replayed must surface as a violation even when it is a listed
        # known finding; every other listed signature stays classified as known (the violation list is capped)
        ks = known - set(req.get("unmask", []))
        # "history": earlier runs of the same (simulated-process-hosting) interpreter, executed first and
        # discarded; only the last run is reported.  Used when a violation depends on what ran before it.
        for earlier in req.get("history", []):
            execute_run(mod, earlier, ks)
        res = execute_run(mod, req["run"], ks)
        sys.stdout.write(json.dumps(res.summary(with_obs=req.get("with_obs", False))) + "\n")
        sys.stdout.flush()


def main(argv):
    import argparse
    p = argparse.ArgumentParser()
    p.add_argument("mode", choices=["batch", "serve"])
    p.add_argument("prop")
    p.add_argument("--seed", type=int, default=0)
    p.add_argument("--start", type=int, default=0)
    p.add_argument("--count", type=int, default=1)
    p.add_argument("--tier", default="quick")
    p.add_argument("--out")
    p.add_argument("--per-run", action="store_true")
    a = p.parse_args(argv)
    faulthandler.enable()
    world.assert_tree()
    mod = importlib.import_module(f"icalsim.props.{a.prop.lower()}")
    if a.mode == "batch":
        batch(a.prop, mod, a)
    else:
        serve(a.prop, mod)


if __name__ == "__main__":
    main(sys.argv[1:])
