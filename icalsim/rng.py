"""One integer decides everything: seed derivation."""
import hashlib
import random


def derive(verif_seed, prop, index, salt=""):
    h = hashlib.sha256(f"{verif_seed}/{prop}/{index}/{salt}".encode()).digest()
    return int.from_bytes(h[:8], "big")


def rng_for(verif_seed, prop, index, salt=""):
    return random.Random(derive(verif_seed, prop, index, salt))


def digest(obj):
    """Canonical digest of a JSON-able object (independent of hash seed)."""
    import json
    return hashlib.sha256(
        json.dumps(obj, sort_keys=True, separators=(",", ":"), ensure_ascii=True,
                   default=repr).encode()).hexdigest()[:24]


def pick_weighted(rng, pairs):
    """pairs: list of (item, weight) in a fixed order."""
    total = sum(w for _, w in pairs)
    x = rng.random() * total
    acc = 0.0
    for item, w in pairs:
        acc += w
        if x < acc:
            return item
    return pairs[-1][0]
