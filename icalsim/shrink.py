"""Trace minimisation: ddmin over the step list, then per-step argument shrinking.

`test(trace) -> bool` must return True when the *same violation signature*
still shows.  The number of calls is bounded by `budget`.
"""


class Budget:
    def __init__(self, n):
        self.left = n
        self.used = 0

    def take(self):
        if self.left <= 0:
            return False
        self.left -= 1
        self.used += 1
        return True


def ddmin(trace, test, budget):
    """Classic delta debugging (complement removal), order preserving."""
    n = 2
    cur = list(trace)
    while len(cur) >= 2:
        chunk = max(1, len(cur) // n)
        subsets = [cur[i:i + chunk] for i in range(0, len(cur), chunk)]
        reduced = False
        for i in range(len(subsets)):
            cand = [s for j, sub in enumerate(subsets) if j != i for s in sub]
            if not cand:
                continue
            if not budget.take():
                return cur
            if test(cand):
                cur = cand
                n = max(n - 1, 2)
                reduced = True
                break
        if not reduced:
            if n >= len(cur):
                break
            n = min(len(cur), n * 2)
    # final single-step removal pass
    i = 0
    while i < len(cur) and len(cur) > 1:
        cand = cur[:i] + cur[i + 1:]
        if not budget.take():
            return cur
        if test(cand):
            cur = cand
        else:
            i += 1
    return cur


def shrink_steps(trace, test, simplify, budget):
    """Try simpler variants of each step (property module supplies `simplify`)."""
    cur = list(trace)
    changed = True
    rounds = 0
    while changed and rounds < 40:
        changed = False
        rounds += 1
        for i in range(len(cur)):
            for cand_step in simplify(cur[i]):
                cand = cur[:i] + [cand_step] + cur[i + 1:]
                if not budget.take():
                    return cur
                if test(cand):
                    cur = cand
                    changed = True
                    break
    return cur
