"""What one simulated run reports."""
from collections import Counter


class BudgetExceeded(BaseException):
    """Raised inside the system under test when the step budget is exhausted.

    BaseException on purpose: the library's `except Exception` clauses must not
    be able to swallow it.
    """


class RunResult:
    def __init__(self, known_sigs=()):
        self.known_sigs = set(known_sigs)
        self.violations = []     # [{"sig","step","detail"}]
        self.known = Counter()   # sig -> count (violations listed in known_findings.json)
        self.known_example = {}  # sig -> {"step","detail"}
        self.obs = []            # observation log: JSON-able, hash-seed independent entries
        self.ops = Counter()
        self.faults = Counter()
        self.probes = Counter()
        self.states = set()
        self.steps = 0
        self.skipped = 0         # steps skipped because their inputs were dropped (minimisation)
        self.harness_error = None

    # -- reporting ---------------------------------------------------------
    def violate(self, sig, step, detail):
        if sig in self.known_sigs:
            self.known[sig] += 1
            self.known_example.setdefault(sig, {"step": step, "detail": str(detail)[:600]})
        else:
            if len(self.violations) < 8:
                self.violations.append({"sig": sig, "step": step, "detail": str(detail)[:1200]})

    def observe(self, step, op, what):
        self.obs.append([step, op, what])

    def probe(self, name, n=1):
        self.probes[name] += n

    @property
    def nontrivial(self):
        return bool(self.probes) or bool(self.faults)

    def summary(self, with_obs=False):
        from .rng import digest
        d = {
            "violations": self.violations,
            "known": dict(self.known),
            "known_example": self.known_example,
            "obs_digest": digest(self.obs),
            "steps": self.steps,
            "skipped": self.skipped,
            "harness_error": self.harness_error,
            "probes": dict(self.probes),
            "faults": dict(self.faults),
        }
        if with_obs:
            d["obs"] = self.obs
        return d
