"""Seeded family of VTIMEZONE definitions, their text, and an RFC 5545 section 3.6.5 reference model.

No dateutil / pytz / zoneinfo code is used here: onsets are computed with datetime.date
arithmetic only, so the model is independent of both conversion paths of the library.

Definition spec (JSON-able):
  {"tzid": "Sim/A",
   "obs": [{"kind": "STANDARD"|"DAYLIGHT", "dtstart": [y,m,d,H,M,S], "from": minutes, "to": minutes,
            "name": str|None,
            "rrule": {"bymonth": m, "byday": [n, "SU"], "until": [y,m,d,H,M,S]|None, "count": n|None}|None,
            "rdates": [[y,m,d,H,M,S], ...]}]}
"""
from datetime import date, datetime, timedelta

WEEKDAYS = ["MO", "TU", "WE", "TH", "FR", "SA", "SU"]
LAST_YEAR = 2037


# ---------------------------------------------------------------------------
# calendar arithmetic

def nth_weekday(year, month, n, wd):
    """date of the n-th (1..4, or -1 = last) weekday wd (0=MO) of month/year."""
    if n > 0:
        first = date(year, month, 1)
        delta = (wd - first.weekday()) % 7
        return first + timedelta(days=delta + 7 * (n - 1))
    nxt = date(year + (month == 12), month % 12 + 1, 1)
    last = nxt - timedelta(days=1)
    delta = (last.weekday() - wd) % 7
    return last - timedelta(days=delta)


def fmt_offset(minutes):
    sign = "-" if minutes < 0 else "+"
    m = abs(minutes)
    return f"{sign}{m // 60:02}{m % 60:02}"


def fmt_dt(t):
    return f"{t[0]:04}{t[1]:02}{t[2]:02}T{t[3]:02}{t[4]:02}{t[5]:02}"


# ---------------------------------------------------------------------------
# reference model

def local_onsets(ob, last_year=LAST_YEAR):
    """Local (wall-clock, in TZOFFSETFROM) onsets of one observance, sorted, unique."""
    start = datetime(*ob["dtstart"])
    out = [start]
    rr = ob.get("rrule")
    if rr:
        n, wdname = rr["byday"]
        wd = WEEKDAYS.index(wdname)
        until = datetime(*rr["until"]) if rr.get("until") else None
        count = rr.get("count")
        out = []
        y = start.year
        frm = timedelta(minutes=ob["from"])
        while y <= last_year + 1:
            d = nth_weekday(y, rr["bymonth"], n, wd)
            cand = datetime(d.year, d.month, d.day, start.hour, start.minute, start.second)
            y += 1
            if cand < start:
                continue
            if until is not None and cand - frm > until:   # UNTIL is a UTC instant, inclusive
                break
            if count is not None and len(out) >= count:
                break
            out.append(cand)
    for r in ob.get("rdates") or []:
        out.append(datetime(*r))
    return sorted(set(out))


def utc_onsets(defn, last_year=LAST_YEAR):
    """[(onset_utc (naive datetime in UTC), observance index)] sorted by onset."""
    res = []
    for i, ob in enumerate(defn["obs"]):
        frm = timedelta(minutes=ob["from"])
        for loc in local_onsets(ob, last_year):
            res.append((loc - frm, i))
    res.sort()
    return res


def in_force(defn, onsets, instant_utc):
    """(offset minutes, TZNAME or None, is_standard) at a naive-UTC instant, or None before the first onset."""
    best = None
    for t, i in onsets:
        if t <= instant_utc:
            best = i
        else:
            break
    if best is None:
        return None
    ob = defn["obs"][best]
    return (ob["to"], ob.get("name"), ob["kind"] == "STANDARD")


def probe_instants(onsets, limit=60, hi=datetime(2037, 12, 31, 0, 0, 0)):
    """Instants (naive UTC) at each onset -1s / 0 / +1s and at interval midpoints, <= 2037."""
    pts = []
    ts = [t for t, _ in onsets if t <= hi]
    # sample onsets evenly if there are many
    if len(ts) > limit // 4:
        step = len(ts) / (limit // 4)
        idx = sorted({int(i * step) for i in range(limit // 4)} | {0, len(ts) - 1, len(ts) - 2})
        idx = [i for i in idx if 0 <= i < len(ts)]
    else:
        idx = list(range(len(ts)))
    for i in idx:
        t = ts[i]
        pts += [t - timedelta(seconds=1), t, t + timedelta(seconds=1)]
        nxt = ts[i + 1] if i + 1 < len(ts) else min(hi, t + timedelta(days=200))
        if nxt > t:
            mid = t + (nxt - t) / 2
            pts.append(mid.replace(microsecond=0))
    first = ts[0] if ts else None
    return sorted({p for p in pts if first is not None and p >= first and p <= hi})


def consistent(defn):
    """Every onset's TZOFFSETFROM equals the offset in force just before it (what real producers emit),
    and no two onsets coincide."""
    ons = utc_onsets(defn)
    prev_to = None
    prev_t = None
    for t, i in ons:
        ob = defn["obs"][i]
        if prev_t is not None and t == prev_t:
            return False
        if prev_to is not None and ob["from"] != prev_to:
            return False
        prev_to = ob["to"]
        prev_t = t
    return True


# ---------------------------------------------------------------------------
# text

def vtimezone_lines(defn, with_tzid=True):
    lines = ["BEGIN:VTIMEZONE"]
    if with_tzid:
        # the value of the TZID property is TEXT: commas, semicolons and backslashes are escaped
        lines.append("TZID" + (";" + defn["tzid_param"] if defn.get("tzid_param") else "") + ":" + defn["tzid"].replace("\\", "\\\\").replace(",", "\\,").replace(";", "\\;"))
    lines += defn.get("extras", [])          # legal properties that say nothing about offsets
    for ob in defn["obs"]:
        lines.append("BEGIN:" + ob["kind"])
        lines += ob.get("extras", [])
        lines.append("DTSTART:" + fmt_dt(ob["dtstart"]))
        lines.append("TZOFFSETFROM:" + fmt_offset(ob["from"]))
        lines.append("TZOFFSETTO:" + fmt_offset(ob["to"]))
        if ob.get("name"):
            # RFC 5545 3.8.3.2: TZNAME may say in which language it is written
            lines.append("TZNAME" + (";LANGUAGE=" + ob["lang"] if ob.get("lang") else "") + ":" + ob["name"])
        rr = ob.get("rrule")
        if rr:
            s = f"RRULE:FREQ=YEARLY;BYMONTH={rr['bymonth']};BYDAY={rr['byday'][0]}{rr['byday'][1]}"
            if rr.get("until"):
                s += ";UNTIL=" + fmt_dt(rr["until"]) + "Z"
            if rr.get("count"):
                s += f";COUNT={rr['count']}"
            lines.append(s)
        if ob.get("rdates"):
            lines.append("RDATE:" + ",".join(fmt_dt(r) for r in ob["rdates"]))
        lines.append("END:" + ob["kind"])
    lines.append("END:VTIMEZONE")
    return lines


def vtimezone_text(defn):
    return "\r\n".join(vtimezone_lines(defn)) + "\r\n"


# ---------------------------------------------------------------------------
# generation

TIMES = [(0, 0, 0), (1, 0, 0), (2, 0, 0), (3, 0, 0), (2, 30, 0), (23, 0, 0), (4, 0, 0)]
STD_OFFSETS = [0, 60, 120, -300, -480, 330, 345, 570, -210, 720, 840, -720, 765, -570, 13 * 60, 8 * 60 + 45]
DELTAS = [60, 60, 60, 30, 120]


def _rule_onset(year, month, n, wd, tod):
    d = nth_weekday(year, month, n, wd)
    return [d.year, d.month, d.day, tod[0], tod[1], tod[2]]


def _until_for(rng, last_local, frm_minutes):
    """An UNTIL that keeps `last_local` as the last onset: exactly its UTC instant (Outlook/libical style),
    a bit later, or the end of that year."""
    last = datetime(*last_local)
    utc = last - timedelta(minutes=frm_minutes)
    style = rng.choice(["exact", "exact", "plus-day", "year-end", "plus-hours"])
    if style == "exact":
        u = utc
    elif style == "plus-day":
        u = utc + timedelta(days=1)
    elif style == "plus-hours":
        u = utc + timedelta(hours=rng.choice([1, 5, 13]))
    else:
        u = datetime(last.year, 12, 31, 23, 59, 59)
    return [u.year, u.month, u.day, u.hour, u.minute, u.second], style


def _dst_pair(rng, std, delta, y0, y1, names, bounded, explicit=False):
    """DAYLIGHT + STANDARD observances alternating from year y0 to y1 (inclusive, or open-ended)."""
    ms, me = rng.choice([(3, 10), (3, 11), (4, 10), (4, 9), (10, 3), (9, 4), (11, 2), (5, 8)])
    ns, ne = rng.choice([1, 2, -1, -1, 3, 4]), rng.choice([1, 2, -1, -1, 3, 4])
    wds, wde = rng.choice([6, 6, 6, 5, 0, 4]), rng.choice([6, 6, 6, 5, 0, 3])
    tods, tode = rng.choice(TIMES), rng.choice(TIMES)
    south = me < ms
    dst = std + delta
    d_years = list(range(y0, (y1 if bounded else y0) + 1))
    s_years = [y + 1 for y in d_years] if south else list(d_years)
    D = {"kind": "DAYLIGHT", "dtstart": _rule_onset(y0, ms, ns, wds, tods), "from": std, "to": dst,
         "name": names[1], "rrule": None, "rdates": []}
    S = {"kind": "STANDARD", "dtstart": _rule_onset(s_years[0], me, ne, wde, tode), "from": dst, "to": std,
         "name": names[0], "rrule": None, "rdates": []}
    meta = {}
    if explicit:
        D["rdates"] = [_rule_onset(y, ms, ns, wds, tods) for y in d_years[1:]]
        S["rdates"] = [_rule_onset(y, me, ne, wde, tode) for y in s_years[1:]]
        if rng.random() < 0.5:
            # RFC 5545 gives the values of an RDATE list no order
            rng.shuffle(D["rdates"])
            rng.shuffle(S["rdates"])
            meta["rdates_unordered"] = True
        return [D, S], meta
    D["rrule"] = {"bymonth": ms, "byday": [ns, WEEKDAYS[wds]], "until": None, "count": None}
    S["rrule"] = {"bymonth": me, "byday": [ne, WEEKDAYS[wde]], "until": None, "count": None}
    if bounded:
        if rng.random() < 0.6:
            D["rrule"]["until"], st1 = _until_for(rng, _rule_onset(d_years[-1], ms, ns, wds, tods), std)
            S["rrule"]["until"], st2 = _until_for(rng, _rule_onset(s_years[-1], me, ne, wde, tode), dst)
            meta["until_styles"] = [st1, st2]
        else:
            D["rrule"]["count"] = len(d_years)
            S["rrule"]["count"] = len(s_years)
            meta["count"] = True
    return [D, S], meta


# regional families: every member switches at the same UTC instant (as the zones of the EU do), so members with
# different standard offsets have the same rule text and DTSTARTs that denote the same instant with different
# wall-clock times.  (month, n, weekday) of the DAYLIGHT and of the STANDARD onset, time of day in UTC (minutes).
FAMILIES = [((3, -1, 6), (10, -1, 6), 60), ((4, 1, 6), (10, -1, 6), 120), ((3, 2, 6), (11, 1, 6), 180)]
FAMILY_STD = [-60, 0, 60, 120, 180]
FAMILY_Y0 = [1981, 1996]


def _family_pair(rng, names):
    (ms, ns, wds), (me, ne, wde), utc_min = rng.choice(FAMILIES)
    std = rng.choice(FAMILY_STD)
    dst = std + 60
    y0 = rng.choice(FAMILY_Y0)
    tods = divmod(utc_min + std, 60) + (0,)     # wall clock in TZOFFSETFROM = std
    tode = divmod(utc_min + dst, 60) + (0,)     # wall clock in TZOFFSETFROM = dst
    D = {"kind": "DAYLIGHT", "dtstart": _rule_onset(y0, ms, ns, wds, tods), "from": std, "to": dst, "name": names[1],
         "rrule": {"bymonth": ms, "byday": [ns, WEEKDAYS[wds]], "until": None, "count": None}, "rdates": []}
    S = {"kind": "STANDARD", "dtstart": _rule_onset(y0, me, ne, wde, tode), "from": dst, "to": std, "name": names[0],
         "rrule": {"bymonth": me, "byday": [ne, WEEKDAYS[wde]], "until": None, "count": None}, "rdates": []}
    meta = {"family": True}
    if rng.random() < 0.3:
        y1 = y0 + rng.randint(3, 20)
        for ob, (m, n, wd), tod, frm in ((D, (ms, ns, wds), tods, std), (S, (me, ne, wde), tode, dst)):
            u = datetime(*_rule_onset(y1, m, n, wd, tod)) - timedelta(minutes=frm)
            ob["rrule"]["until"] = [u.year, u.month, u.day, u.hour, u.minute, u.second]
        meta["until_styles"] = ["exact", "exact"]
    return [D, S], meta


def gen_definition(rng, tzid, allow_inconsistent=False):
    """A VTIMEZONE definition of the seeded family; returns (defn, meta)."""
    std = rng.choice(STD_OFFSETS)
    delta = rng.choice(DELTAS)
    with_names = rng.random() < 0.8
    tag = "".join(rng.choice("ABCDEFGHKLMNPQRSTUVWXYZ") for _ in range(3))
    if rng.random() < 0.12:
        tag = tag[:2] + rng.choice("ÖÅÑ日")     # abbreviations are free text
    names = (tag + "ST", tag + "DT") if with_names else (None, None)
    shape = rng.choice(["fixed", "open", "open", "bounded", "bounded", "explicit", "two-eras", "base+open", "rename",
                        "family"])
    obs = []
    meta = {"shape": shape}
    base = {"kind": "STANDARD", "dtstart": rng.choice([[1970, 1, 1, 0, 0, 0], [1970, 1, 1, 0, 0, 0], [1601, 1, 1, 0, 0, 0],
                                                          [1883, 11, 18, 12, 0, 0]]),
            "from": std, "to": std, "name": names[0], "rrule": None, "rdates": []}
    if shape == "fixed":
        obs = [base]
        if rng.random() < 0.4:
            base["from"] = std + rng.choice([-60, 60, 30, -15])  # a one-off shift at the epoch
    elif shape == "family":
        obs, m = _family_pair(rng, names)
        meta.update(m)
    elif shape == "open":
        # Exchange / Outlook write their rules from the year 1601 on
        y0 = 1601 if rng.random() < 0.2 else rng.randint(1971, 2005)
        obs, m = _dst_pair(rng, std, delta, y0, None, names, False)
        meta.update(m)
        if y0 == 1601:
            meta["rules_from_1601"] = True
    elif shape == "base+open":
        pair, m = _dst_pair(rng, std, delta, rng.randint(1975, 2010), None, names, False)
        obs = [base] + pair
        meta.update(m)
    elif shape == "bounded":
        y0 = rng.randint(1971, 2020)
        obs, m = _dst_pair(rng, std, delta, y0, y0 + rng.randint(0, 12), names, True)
        meta.update(m)
        if rng.random() < 0.5:
            obs = [base] + obs
    elif shape == "explicit":
        y0 = rng.randint(1971, 2025)
        obs, m = _dst_pair(rng, std, delta, y0, y0 + rng.randint(0, 5), names, True, explicit=True)
        meta.update(m)
    elif shape == "rename":
        # an observance at whose onset the clock does not move: the zone is renamed, or stays on its
        # summer offset for good (TZOFFSETFROM == TZOFFSETTO, other TZNAME / kind)
        y0 = rng.randint(1975, 2015)
        y1 = y0 + rng.randint(1, 6)
        pair, m = _dst_pair(rng, std, delta, y0, y1, names, True, explicit=True)
        meta.update(m)
        new_name = (tag + "NT") if with_names else None
        if rng.random() < 0.5:
            # after the last STANDARD onset: standard offset kept, new abbreviation
            obs = pair + [{"kind": "STANDARD", "dtstart": [y1 + 2, rng.randint(1, 12), rng.randint(1, 28), 0, 0, 0],
                           "from": std, "to": std, "name": new_name, "rrule": None, "rdates": []}]
            meta["rename"] = "after-standard"
        else:
            # permanent summer time: drop the last STANDARD onset, then a STANDARD observance on the DST offset
            D, S = pair
            if S["rdates"]:
                S["rdates"] = S["rdates"][:-1]
                last_d = D["rdates"][-1] if D["rdates"] else D["dtstart"]
            else:
                # only one year: replace the STANDARD observance by the rename altogether
                pair = [D]
                last_d = D["dtstart"]
            when = datetime(*last_d) + timedelta(days=rng.randint(40, 200))
            obs = pair + [{"kind": "STANDARD", "dtstart": [when.year, when.month, when.day, 0, 0, 0],
                           "from": std + delta, "to": std + delta, "name": new_name, "rrule": None, "rdates": []}]
            meta["rename"] = "permanent-summer"
    else:  # two eras (at most four observances in total)
        if rng.random() < 0.5:
            # (a) a bounded pair, then an open-ended pair with other rules; same standard offset
            y0 = rng.randint(1971, 1995)
            y1 = y0 + rng.randint(1, 8)
            era1, m = _dst_pair(rng, std, delta, y0, y1, names, True)
            meta.update(m)
            names2 = (tag + "S2", tag + "D2") if with_names else (None, None)
            if with_names and rng.random() < 0.4:
                names2 = names      # the zone changed its rules (maybe its DST offset) but kept its abbreviations
                meta["same_names"] = True
            era2, _ = _dst_pair(rng, std, rng.choice(DELTAS), y1 + 3, None, names2, False)
            obs = era1 + era2
            meta["eras"] = "pair+pair"
        else:
            # (b) fixed offset, a shift of the standard offset, then an open-ended pair
            std2 = std + rng.choice([60, -60, 30, -30])
            y2 = rng.randint(1972, 2000)
            names2 = (tag + "S2", tag + "D2") if with_names else (None, None)
            if with_names and rng.random() < 0.4:
                names2 = names      # the standard offset changed, the abbreviation did not
                meta["same_names"] = True
            shift = {"kind": "STANDARD", "dtstart": [y2, rng.randint(1, 12), rng.randint(1, 28), 0, 0, 0],
                     "from": std, "to": std2, "name": names2[0], "rrule": None, "rdates": []}
            era2, _ = _dst_pair(rng, std2, rng.choice(DELTAS), y2 + 1, None, names2, False)
            obs = [base, shift] + era2
            meta["eras"] = "base+shift+pair"
    if rng.random() < 0.3:
        rng.shuffle(obs)   # order of sub-components in the file is not significant
    defn = {"tzid": tzid, "obs": obs[:4]}
    if with_names and len(defn["obs"]) > 1 and rng.random() < 0.15:
        rng.choice(defn["obs"])["name"] = None      # TZNAME is optional per observance
        meta["partly_named"] = True
    if with_names and rng.random() < 0.12:
        lang = rng.choice(["en", "de-AT", "fr-CA"])
        for ob in defn["obs"]:
            if ob.get("name") and rng.random() < 0.8:
                ob["lang"] = lang
        meta["tzname_language"] = True
    if rng.random() < 0.06:
        defn["tzid_param"] = "X-RICAL-TZSOURCE=TZINFO"     # as rical / Apple Calendar write the TZID property
        meta["tzid_with_parameter"] = True
    if rng.random() < 0.4:
        # what real producers add: properties that must not influence the zone.  The revision stamp is the same in
        # every export of one producer, whatever the definition says (a truncated export, another rule set)
        defn["extras"] = rng.sample(["X-LIC-LOCATION:" + tzid.strip("/"), "TZURL:http://tz.example.com/" + tag,
                                     "X-MICROSOFT-CDO-TZID:4"], rng.randint(0, 2))
        if rng.random() < 0.75:
            defn["extras"].insert(rng.randint(0, len(defn["extras"])), "LAST-MODIFIED:20200101T000000Z")
        if not defn["extras"]:
            defn["extras"] = ["X-LIC-LOCATION:" + tzid.strip("/")]
        for ob in defn["obs"]:
            if rng.random() < 0.4:
                ob["extras"] = rng.sample(["COMMENT:generated", "X-NOTE:" + tag], rng.randint(1, 2))
        meta["extras"] = True
    if not consistent(defn):
        if allow_inconsistent:
            meta["inconsistent"] = True
        else:
            # fall back to a shape that is always consistent
            defn = {"tzid": tzid, "obs": [base]}
            meta["shape"] = "fixed(fallback)"
    return defn, meta


def simple_definition(tzid, std=60):
    return {"tzid": tzid, "obs": [{"kind": "STANDARD", "dtstart": [1970, 1, 1, 0, 0, 0], "from": std, "to": std,
                                   "name": "SIM", "rrule": None, "rdates": []}]}
