"""C12 - VTIMEZONE is interpreted per RFC 5545 onset rules, independent of process history,
the same in both providers.

What the simulator owns (DESIGN.md section 4, C12): the process-wide provider (S1) and zone
cache (S2).  1-4 clients share one simulated process and parse calendars that define colliding
TZIDs differently, re-serialise and re-parse them, convert definitions directly, while the
environment switches provider and restarts the process.  Every zoned value that was parsed from
a calendar that defines its TZID is fingerprinted (UTC instant -> offset, name, dst) at the
onsets -1s/0/+1s and interval midpoints of *that calendar's own definition* and compared with
an RFC 5545 onset interpreter.  A harness-side model of the cache predicts which definition
the library really used; observations that match that prediction but not the specification are
the known deviations (known_findings.json); anything else is a violation.
"""
import hashlib
from datetime import datetime, timedelta, timezone

from icalsim import world, zonegen
from icalsim.rng import digest

ID = "C12"
RULE = ("each run = one history of 3..30 steps by 1-4 clients in one simulated process: parse a calendar (0-2 "
        "VTIMEZONEs from a seeded family - 1-4 observances, whole-minute offsets, yearly nth-weekday rules with/"
        "without UNTIL/COUNT, RDATE lists, single onsets, with/without TZNAME - standing before or after 1-3 "
        "VEVENT/VTODO/VJOURNAL/VFREEBUSY components whose DTSTART/DTEND/DUE/RECURRENCE-ID/RDATE/EXDATE/FREEBUSY "
        "reference a TZID from a small colliding pool), re-serialise and re-parse, convert a definition directly "
        "under either provider, provider switch, soft restart; every parsed zoned value and every converted zone "
        "is fingerprinted at its definition's onsets -1s/0/+1s and midpoints (<= 2037) against an RFC 5545 onset "
        "interpreter; non-trivial = reached a probe; distinct = distinct abstract histories (op, provider, id "
        "classes, definition shapes, positions)")
STATE_MEASURE = ("distinct (provider, cache signature = set of (cleaned id, definition), lookup class in "
                 "{own-before, own-after, absent, provider-known, alias}) triples")
STATE_SPACE = None
COV_MEASURE = "op kind x provider x lookup class"
HARNESS_COMPONENTS = ["clients", "op-level scheduler", "RFC 5545 onset interpreter (zonegen)",
                      "model of the process-wide zone cache (known-deviation model)", "durable store (bytes)",
                      "process lifecycle: provider switch, soft restart"]
ASSUMPTIONS = [
    "definitions are consistent chains (each onset's TZOFFSETFROM equals the offset in force before it) with "
    "DTSTART synchronised with its RRULE, no coinciding onsets - what real producers emit",
    "instants are sampled: every onset (or an even sample of them) -1s/0/+1s and interval midpoints up to 2037",
    "TZNAME is compared only when the observance carries one",
]

HISTORY_CHECK = True   # last runs of every chunk are re-observed alone in a fresh interpreter

TIERS = {
    "quick":    {"runs": 5000,  "chunk": 160,  "hash_seeds": [0], "max_steps": 16, "timeout": 900},
    "thorough": {"history_check_cap": 200, "runs": 64000, "chunk": 1000, "max_wall": 2400, "hash_seeds": [0, 11], "max_steps": 30, "timeout": 3400},
    "selftest": {"runs": 128,   "chunk": 16,   "hash_seeds": [0], "max_steps": 16, "timeout": 300},
}
REQUIRED_PROBES = {"quick": ["lookup_served_from_cache", "definition_after_first_user", "same_id_redefined",
                             "provider_known_id_redefined", "restart_between_definition_and_use",
                             "value_matches_own_definition", "convert_zoneinfo", "convert_pytz",
                             "reparse_of_serialisation", "interleaved_clients", "until_rule", "count_rule",
                             "rdate_observance", "two_eras", "no_tzname", "slash_prefixed_id", "parsed_with_multiple",
                             "utc_instant_family", "convert_with_process_wide_provider", "tzname_with_language",
                             "converted_again_after_edit", "hundreds_of_zones_cached",
                             "same_text_parsed_again_after_rule_edit"]}
REQUIRED_PROBES["thorough"] = REQUIRED_PROBES["quick"]

# "sim/a" / "SIM/B" / "SÏM/Ü": other ids than "Sim/A" / "Sim/B" / "Sïm/Ü" (ids are compared as they are written)
ID_POOL = ["Sim/A", "Sim/B", "/Sim/A", "Europe/Berlin", "W. Europe Standard Time", "Sïm/Ü", "Sim/B/", "sim/a", "SIM/B",
           "SÏM/Ü", "(UTC+01:00) Sim, City; Town"]     # display names as ids: TEXT escapes in the TZID property
PROVIDER_ZONE = {"Europe/Berlin": "Europe/Berlin", "W. Europe Standard Time": "Europe/Berlin"}
UTC = timezone.utc
COMP_PROPS = {"VEVENT": ["DTSTART", "DTEND", "RECURRENCE-ID", "RDATE", "EXDATE"], "VTODO": ["DTSTART", "DUE", "RDATE"],
              "VJOURNAL": ["DTSTART", "RDATE", "EXDATE"], "VFREEBUSY": ["DTSTART", "DTEND", "FREEBUSY"]}

SIG_FIRST = "C12/dev/first-cached-definition-wins"
SIG_FWD = "C12/dev/forward-reference-naive"
SIG_PROV = "C12/dev/provider-known-id-ignores-definition"
SIG_DU = "C12/dev/zoneinfo-path-follows-dateutil-tzical"


def clean(tzid):
    return tzid.strip("/")


def id_class(tzid):
    if tzid == "Europe/Berlin":
        return "iana"
    if tzid.startswith("W."):
        return "windows"
    if tzid.startswith("/"):
        return "slash"
    if tzid in ("sim/a", "SIM/B", "SÏM/Ü"):
        return "case-variant"
    if "," in tzid:
        return "display-name"
    return "custom"


# ---------------------------------------------------------------------------
# generation

def generate(rng, cfg):
    from icalsim.rng import pick_weighted
    provider = rng.choice(["zoneinfo", "pytz"])
    nclients = rng.choice([1, 2, 2, 3, 4])
    ids = rng.sample(ID_POOL, rng.randint(2, 4))
    ids.sort(key=ID_POOL.index)
    defs = []
    for tzid in ids:
        for _ in range(rng.choice([1, 1, 2, 3])):
            d, meta = zonegen.gen_definition(rng, tzid)
            defs.append({"def": d, "meta": meta})
    trace = []
    nsteps = rng.randint(3, cfg.get("max_steps", 16))
    slots = {}      # (client, slot) -> True
    docs = 0
    weights = [("parse", 10), ("reserialise", 3), ("parse_doc", 3), ("convert", 2),
               ("provider_switch", 1), ("soft_restart", 1.5)]
    bulk_at = rng.randrange(nsteps) if rng.random() < 0.05 else None
    while len(trace) < nsteps:
        op = pick_weighted(rng, weights)
        c = rng.randrange(nclients)
        if bulk_at is not None and len(trace) >= bulk_at:
            # a long-running process: some other client has parsed calendars with hundreds of custom zones
            bulk_at = None
            trace.append([c, "bulk_parse", {"n": rng.choice([100, 140, 200, 300]), "per_calendar": rng.choice([1, 10, 50])}])
            continue
        if op == "parse":
            cal = _gen_calendar(rng, defs, ids)
            slot = rng.randrange(3)
            slots[(c, slot)] = True
            trace.append([c, "parse", {"slot": slot, "cal": cal, "multiple": rng.random() < 0.25,
                                       "style": rng.choice(["plain", "plain", "quoted", "value-param"])}])
        elif op == "reserialise":
            mine = sorted(s for (cc, s) in slots if cc == c)
            if not mine:
                continue
            trace.append([c, "reserialise", {"slot": rng.choice(mine), "doc": docs}])
            docs += 1
        elif op == "parse_doc":
            if not docs:
                continue
            slot = rng.randrange(3)
            slots[(c, slot)] = True
            trace.append([c, "parse_doc", {"doc": rng.randrange(docs), "slot": slot}])
        elif op == "convert":
            # with a provider object of its own, or with the process-wide one (whatever provider that is just now)
            step = {"def": rng.randrange(len(defs)), "provider": rng.choice(["zoneinfo", "pytz"]),
                    "global": rng.random() < 0.5}
            if rng.random() < 0.3:
                # the component is converted, an observance is renamed in place, and it is converted again
                step["edit"] = {"ob": rng.randrange(len(defs[step["def"]]["def"]["obs"])),
                                "name": "E" + "".join(rng.choice("ABCDEFGHKLMN") for _ in range(3)),
                                # "rule": the rule of that observance is edited in place instead, and the text is
                                # parsed and converted once more: the new component follows its text, not the edit
                                "kind": rng.choice(["name", "name", "rule"])}
            trace.append([c, "convert", step])
        elif op == "provider_switch":
            trace.append(["env", "provider_switch", {"p": rng.choice(["zoneinfo", "pytz"])}])
        else:
            trace.append(["env", "soft_restart", {}])
    return {"cfg": {"provider": provider, "defs": defs, "ids": ids}, "trace": trace}


def _gen_calendar(rng, defs, ids):
    """A calendar spec: VTIMEZONEs (by definition index) standing before / after the components."""
    chosen = []
    used_ids = set()
    for _ in range(rng.choice([0, 1, 1, 1, 2])):
        i = rng.randrange(len(defs))
        tzid = defs[i]["def"]["tzid"]
        if clean(tzid) in used_ids:
            continue
        used_ids.add(clean(tzid))
        chosen.append([i, rng.choice(["before", "before", "after"])])
    comps = []
    for _ in range(rng.randint(1, 3)):
        kind = rng.choice(list(COMP_PROPS))
        props = []
        for name in rng.sample(COMP_PROPS[kind], rng.randint(1, 2)):
            if chosen and rng.random() < 0.8:
                tzid = defs[rng.choice(chosen)[0]]["def"]["tzid"]
            else:
                tzid = rng.choice(ids)         # possibly not defined in this calendar
            n = rng.randint(1, 3) if name in ("RDATE", "EXDATE", "FREEBUSY") else 1
            walls = [[rng.choice([1985, 1999, 2010, 2024, 2036]), rng.randint(1, 12), rng.randint(1, 28),
                      rng.randint(0, 23), rng.choice([0, 30]), 0] for _ in range(n)]
            props.append({"name": name, "tzid": tzid, "walls": walls})
        comps.append({"kind": kind, "props": props})
    return {"vtz": chosen, "comps": comps}


def abstract_sig(run):
    defs = run["cfg"]["defs"]
    parts = [run["cfg"]["provider"]]
    for c, op, a in run["trace"]:
        if op == "parse":
            cal = a["cal"]
            parts.append("c%s:parse:%s:%s" % (
                c, ",".join(f"{id_class(defs[i]['def']['tzid'])}/{defs[i]['meta']['shape']}/{pos}" for i, pos in cal["vtz"]),
                ",".join(cp["kind"] + "." + "+".join(p["name"] + "/" + id_class(p["tzid"]) for p in cp["props"])
                         for cp in cal["comps"])))
        elif op == "convert":
            parts.append(f"convert:{defs[a['def']]['meta']['shape']}:{a['provider']}")
        elif op == "provider_switch":
            parts.append("prov:" + a["p"])
        else:
            parts.append(f"c{c}:{op}")
    return "|".join(parts)


# ---------------------------------------------------------------------------
# text

def _fmt(w):
    return f"{w[0]:04}{w[1]:02}{w[2]:02}T{w[3]:02}{w[4]:02}{w[5]:02}"


def _plus_days(w, n):
    t = datetime(*w) + timedelta(days=n)
    return [t.year, t.month, t.day, t.hour, t.minute, t.second]


def _plus_hour(w):
    d = datetime(*w) + timedelta(hours=1)
    return [d.year, d.month, d.day, d.hour, d.minute, d.second]


def calendar_text(cal, defs, style="plain"):
    lines = ["BEGIN:VCALENDAR", "VERSION:2.0", "PRODID:-//icalsim//C12//"]
    for i, pos in cal["vtz"]:
        if pos == "before":
            lines += zonegen.vtimezone_lines(defs[i]["def"])
    for n, cp in enumerate(cal["comps"]):
        lines.append("BEGIN:" + cp["kind"])
        lines.append(f"UID:u{n}")
        for p in cp["props"]:
            par = ";TZID=" + p["tzid"]
            if any(ch in p["tzid"] for ch in ",;:"):
                par = ';TZID="' + p["tzid"] + '"'           # such an id has to be quoted
            elif style == "quoted":
                par = ';TZID="' + p["tzid"] + '"'           # a quoted parameter value means the same
            elif style == "value-param" and p["name"] not in ("FREEBUSY",):
                par = ";VALUE=DATE-TIME" + par            # the default value type given explicitly
            if p["name"] == "FREEBUSY":
                # duration form: an explicit end one wall-clock hour later can precede the start across a
                # DST change of the referenced zone, which the library rightly rejects
                # ... every other entry with an explicit end 200 days on, across the onsets in between
                lines.append(f"FREEBUSY{par}:" + ",".join(
                    _fmt(w) + ("/" + _fmt(_plus_days(w, 200)) if k % 2 else "/PT1H") for k, w in enumerate(p["walls"])))
            elif p["name"] in ("RDATE", "EXDATE"):
                lines.append(f"{p['name']}{par}:" + ",".join(_fmt(w) for w in p["walls"]))
            else:
                lines.append(f"{p['name']}{par}:{_fmt(p['walls'][0])}")
        lines.append("END:" + cp["kind"])
    for i, pos in cal["vtz"]:
        if pos == "after":
            lines += zonegen.vtimezone_lines(defs[i]["def"])
    lines.append("END:VCALENDAR")
    return "\r\n".join(lines) + "\r\n"


# ---------------------------------------------------------------------------
# fingerprints

def def_key(d):
    return digest(d)[:12]


_REF_CACHE = {}


def ref_points(d, limit):
    k = (def_key(d), limit)
    if k not in _REF_CACHE:
        ons = zonegen.utc_onsets(d)
        pts = zonegen.probe_instants(ons, limit=limit)
        _REF_CACHE[k] = (ons, pts)
    return _REF_CACHE[k]


def rfc_fingerprint(d, pts):
    ons = zonegen.utc_onsets(d)
    out = []
    for p in pts:
        r = zonegen.in_force(d, ons, p)
        out.append(None if r is None else (r[0] * 60, r[1], r[2]))
    return out


def tz_fingerprint(tz, pts):
    out = []
    for p in pts:
        try:
            inst = p.replace(tzinfo=UTC).astimezone(tz)
            off = inst.utcoffset()
            out.append((int(off.total_seconds()), inst.tzname(), inst.dst() == timedelta(0)))
        except Exception as e:
            out.append(("!" + type(e).__name__, None, None))
    return out


def fp_equal(obs, ref):
    """Compare an observed fingerprint with a reference one; reference None entries (before the first
    onset) and reference names that are None are not compared."""
    for o, r in zip(obs, ref):
        if r is None:
            continue
        if o[0] != r[0] or o[2] != r[2]:
            return False
        if r[1] is not None and o[1] != r[1]:
            return False
    return True


def fp_first_diff(obs, ref, pts):
    for o, r, p in zip(obs, ref, pts):
        if r is None:
            continue
        if o[0] != r[0] or o[2] != r[2] or (r[1] is not None and o[1] != r[1]):
            return f"at {p.isoformat()}Z observed {o} expected {r}"
    return "equal"


_DU_CACHE = {}


def dateutil_direct(d):
    """What dateutil's own tzical makes of the harness-rendered text of d (independent of icalendar)."""
    k = def_key(d)
    if k not in _DU_CACHE:
        from io import StringIO
        import dateutil.tz
        # the definition proper: extra properties (X-..., TZURL, COMMENT) say nothing about offsets, and
        # dateutil rejects unknown ones outright
        core = dict(d, obs=[{k2: v for k2, v in ob.items() if k2 not in ("extras", "lang")} for ob in d["obs"]])
        core.pop("extras", None)
        core.pop("tzid_param", None)
        try:
            _DU_CACHE[k] = dateutil.tz.tzical(StringIO(zonegen.vtimezone_text(core))).get()
        except Exception:
            _DU_CACHE[k] = None
    return _DU_CACHE[k]


def provider_zone(provider, key):
    if provider == "zoneinfo":
        import zoneinfo
        return zoneinfo.ZoneInfo(key)
    import pytz
    return pytz.timezone(key)


# ---------------------------------------------------------------------------
# execution

class CacheModel:
    """Harness-side model of TZP.__tz_cache under the *current* library behaviour
    (first definition per cleaned id wins; ids the provider knows are never cached)."""

    def __init__(self):
        self.entries = {}   # clean id -> def index

    def wipe(self):
        self.entries = {}

    def define(self, tzid, idx):
        c = clean(tzid)
        if c in PROVIDER_ZONE and not tzid.startswith("W."):
            return
        # Windows names are not 'known' to knows_timezone_id, so they are cached (but never looked up)
        if c not in self.entries:
            self.entries[c] = idx

    def lookup(self, tzid):
        return self.entries.get(clean(tzid))

    def signature(self):
        return ",".join(f"{k}={v}" for k, v in sorted(self.entries.items()))


def _values_of(comp, p):
    """The tzinfo objects of the parsed values of property p (one per value entry)."""
    raw = comp.get(p["name"])
    if raw is None:
        return None
    entries = raw if isinstance(raw, list) else [raw]
    out = []
    for e in entries:
        if hasattr(e, "dts"):
            out += [(x.dt.tzinfo, x.dt) for x in e.dts]
        elif hasattr(e, "start"):
            out.append((e.start.tzinfo, e.start))
            out.append((getattr(e.end, "tzinfo", None), e.end))
        else:
            dt = getattr(e, "dt", None)
            out.append((getattr(dt, "tzinfo", None), dt))
    return out


def _own_offset_check(res, stepno, where, D, value, provider="zoneinfo", tzid=None, E=None):
    """The date-time itself (not only the zone object it carries) has the offset, name and dst of the observance in
    force at its wall-clock time - checked where the RFC model knows only one answer (no gap, no overlap)."""
    from datetime import datetime as _dt
    if not isinstance(value, _dt) or value.tzinfo is None:
        return
    wall = value.replace(tzinfo=None)
    ons = zonegen.utc_onsets(D)
    cands = []
    for off in sorted({ob["to"] for ob in D["obs"]} | {ob["from"] for ob in D["obs"]}):
        r = zonegen.in_force(D, ons, wall - timedelta(minutes=off))
        if r is not None and r[0] == off:
            cands.append(r)
    # also a neighbour within the largest offset step makes the reading provider-dependent: stay clear of onsets
    span = timedelta(minutes=max(abs(ob["to"] - ob["from"]) for ob in D["obs"]) + 1)
    near = any(abs((wall - timedelta(minutes=D["obs"][i]["from"])) - t) <= span or
               abs((wall - timedelta(minutes=D["obs"][i]["to"])) - t) <= span for t, i in ons)
    if len(cands) != 1 or near:
        return
    off, name, std = cands[0]
    try:
        got = (value.utcoffset(), value.tzname(), value.dst())
    except Exception as e:
        res.violate(f"C12/value/raised:{type(e).__name__}", stepno, f"{where}: {e!r}")
        return
    res.probe("value_offset_checked")
    bad = got[0] != timedelta(minutes=off) or (name is not None and got[1] != name) or (std and got[2] not in (None, timedelta(0)))
    if bad and tzid is not None and clean(tzid) in PROVIDER_ZONE:
        # the listed deviation "an id the provider knows ignores the calendar's definition", at a wall-clock time
        # where the sampled instants of the zone fingerprint could not tell the two zones apart
        pz = provider_zone(provider, PROVIDER_ZONE[clean(tzid)])
        try:
            w = pz.localize(wall) if hasattr(pz, "localize") else wall.replace(tzinfo=pz)
            if (w.utcoffset(), w.tzname(), w.dst()) == got:
                res.violate(SIG_PROV, stepno, f"{where}: {wall.isoformat()} carries the provider's "
                            f"{PROVIDER_ZONE[clean(tzid)]} ({got!r}), the definition says {off} min / {name!r}")
                return
        except Exception:
            pass
    if bad and E is not None:
        # ... and "the first cached definition wins"
        eons = zonegen.utc_onsets(E)
        ecands = []
        for eoff in sorted({ob["to"] for ob in E["obs"]} | {ob["from"] for ob in E["obs"]}):
            r = zonegen.in_force(E, eons, wall - timedelta(minutes=eoff))
            if r is not None and r[0] == eoff:
                ecands.append(r)
        if any(got[0] == timedelta(minutes=r[0]) and (r[1] is None or got[1] == r[1]) for r in ecands):
            res.violate(SIG_FIRST, stepno, f"{where}: {wall.isoformat()} carries {got!r}: the definition cached earlier "
                        f"in the process, not the calendar's own ({off} min / {name!r})")
            return
    if bad and provider == "zoneinfo":
        du = dateutil_direct(D)
        if du is not None:
            w = wall.replace(tzinfo=du)
            try:
                if (w.utcoffset(), w.tzname(), w.dst()) == got:
                    # the listed deviation of the zoneinfo path (dateutil's reading of the definition), seen at a
                    # wall-clock time that the sampled instants of the zone fingerprint did not hit
                    res.violate(SIG_DU, stepno, f"{where}: {wall.isoformat()} carries {got!r} as dateutil's own "
                                f"reading of the definition does; the RFC model says {off} min / {name!r}")
                    return
            except Exception:
                pass
    if bad:
        res.violate("C12/value/own-offset-differs-from-zone", stepno,
                    f"{where}: {wall.isoformat()} carries {got!r}, the definition says {off} min / {name!r} / "
                    f"{'STANDARD' if std else 'DAYLIGHT'}")


def execute(run, res):
    from icalendar import Calendar, Timezone
    from icalendar.timezone import TZP
    cfg = run["cfg"]
    defs = cfg["defs"]
    cache = CacheModel()
    slots = {}     # (client, slot) -> (calendar object, calspec)
    docs = {}      # doc id -> (bytes, calspec)
    last_client = None
    defined_since_restart = set()
    for stepno, (c, op, a) in enumerate(run["trace"]):
        res.steps += 1
        provider = world.provider_name()
        if c == "env":
            res.ops[op] += 1
            if cache.entries:
                res.probe("restart_between_definition_and_use")
            if op == "provider_switch":
                world.provider_switch(a["p"])
            else:
                world.soft_restart()
            cache.wipe()
            res.observe(stepno, op, world.provider_name())
            continue
        if last_client is not None and last_client != c:
            res.probe("interleaved_clients")
        last_client = c
        if op == "bulk_parse":
            res.ops[op] += 1
            k = 0
            while k < a["n"]:
                lines = ["BEGIN:VCALENDAR", "VERSION:2.0", "PRODID:bulk"]
                for _ in range(a["per_calendar"]):
                    lines += zonegen.vtimezone_lines(zonegen.simple_definition(f"Bulk/{k:04}", 60 + k % 7 * 30))
                    k += 1
                lines += ["END:VCALENDAR"]
                try:
                    Calendar.from_ical("\r\n".join(lines) + "\r\n")
                except Exception as e:
                    res.violate(f"C12/bulk_parse/raised:{type(e).__name__}", stepno, repr(e)[:300])
                    break
            res.probe("hundreds_of_zones_cached")
            res.observe(stepno, op, a["n"])
            continue
        if op in ("parse", "parse_doc"):
            if op == "parse":
                cal = a["cal"]
                data = calendar_text(cal, defs, a.get("style", "plain"))
            else:
                if a["doc"] not in docs:
                    res.skipped += 1
                    continue
                data, cal = docs[a["doc"]]
                res.probe("reparse_of_serialisation")
            res.ops[op] += 1
            pre_sig = cache.signature()
            try:
                if a.get("multiple"):
                    trees = Calendar.from_ical(data, multiple=True)
                    if len(trees) != 1:
                        res.violate(f"C12/{op}/multiple-count", stepno, f"{len(trees)} calendars returned for one")
                        continue
                    tree = trees[0]
                    res.probe("parsed_with_multiple")
                else:
                    tree = Calendar.from_ical(data)
            except Exception as e:
                res.violate(f"C12/{op}/raised:{type(e).__name__}", stepno, repr(e)[:300])
                continue
            slots[(c, a["slot"])] = (tree, cal)
            _check_parsed(res, stepno, op, tree, cal, defs, cache, provider, data)
        elif op == "reserialise":
            got = slots.get((c, a["slot"]))
            if got is None:
                res.skipped += 1
                continue
            res.ops[op] += 1
            try:
                docs[a["doc"]] = (got[0].to_ical(), _doc_spec(got[0], got[1], defs))
            except Exception as e:
                res.violate(f"C12/reserialise/raised:{type(e).__name__}", stepno, repr(e)[:300])
        elif op == "convert":
            if a["def"] >= len(defs):
                res.skipped += 1
                continue
            if a.get("global"):
                a = dict(a, provider=world.provider_name())
            res.ops[op + ":" + a["provider"]] += 1
            d = defs[a["def"]]["def"]
            _probe_shape(res, defs[a["def"]])
            try:
                comp = Timezone.from_ical(zonegen.vtimezone_text(d))
                cache.define(d["tzid"], a["def"])      # from_ical caches as a side effect
                if a.get("global"):
                    from icalendar.timezone import tzp as _global_tzp
                    P_ = _global_tzp
                    res.probe("convert_with_process_wide_provider")
                else:
                    P_ = TZP(a["provider"])
                tz = comp.to_tz(P_, lookup_tzid=False)
                if a.get("edit") and a["edit"]["ob"] < len(comp.subcomponents):
                    # edit below the VTIMEZONE (the component itself is not told), then convert the same object again
                    import copy as _copy
                    from icalendar.prop import vText as _vText
                    sub = comp.subcomponents[a["edit"]["ob"]]
                    rule = sub.get("RRULE") if a["edit"].get("kind") == "rule" else None
                    if rule is not None and isinstance(rule.get("BYMONTH"), list) and rule["BYMONTH"]:
                        rule["BYMONTH"][0] = rule["BYMONTH"][0] % 12 + 1      # in place: the list object stays
                        if isinstance(rule.get("BYDAY"), list):
                            rule["BYDAY"].append("MO")
                        comp = Timezone.from_ical(zonegen.vtimezone_text(d))
                        tz = comp.to_tz(P_, lookup_tzid=False)
                        res.probe("same_text_parsed_again_after_rule_edit")
                    else:
                        sub["TZNAME"] = _vText(a["edit"]["name"])
                        d = _copy.deepcopy(d)
                        d["obs"][a["edit"]["ob"]]["name"] = a["edit"]["name"]
                        d["obs"][a["edit"]["ob"]].pop("lang", None)
                        tz = comp.to_tz(P_, lookup_tzid=False)
                        res.probe("converted_again_after_edit")
            except Exception as e:
                res.violate(f"C12/convert/{a['provider']}/raised:{type(e).__name__}", stepno, repr(e)[:300])
                continue
            res.probe("convert_" + a["provider"])
            ons, pts = ref_points(d, 80)
            obs = tz_fingerprint(tz, pts)
            ref = rfc_fingerprint(d, pts)
            verdict = "ok"
            if not fp_equal(obs, ref):
                du = dateutil_direct(d) if a["provider"] == "zoneinfo" else None
                if du is not None and obs == tz_fingerprint(du, pts):
                    verdict = "dateutil"
                    res.violate(SIG_DU, stepno, f"convert {d['tzid']} ({defs[a['def']]['meta']}): "
                                + fp_first_diff(obs, ref, pts))
                else:
                    verdict = "violation"
                    res.violate(f"C12/convert/{a['provider']}/differs-from-rfc-onsets", stepno,
                                f"{d['tzid']} ({defs[a['def']]['meta']}): " + fp_first_diff(obs, ref, pts))
            res.observe(stepno, op, [a["provider"], verdict, digest(obs)])
            res.states.add(f"cov:convert:{a['provider']}:{defs[a['def']]['meta']['shape']}")


def _doc_spec(tree, cal, defs):
    """The calendar spec of a re-serialised tree: same definitions and components; positions as on the wire
    (serialisation keeps subcomponent order, so before/after are unchanged)."""
    return cal


def _probe_shape(res, entry):
    d, meta = entry["def"], entry["meta"]
    if any(ob.get("rrule") and ob["rrule"].get("until") for ob in d["obs"]):
        res.probe("until_rule")
    if any(ob.get("rrule") and ob["rrule"].get("count") for ob in d["obs"]):
        res.probe("count_rule")
    if any(ob.get("rdates") for ob in d["obs"]):
        res.probe("rdate_observance")
    if meta.get("shape") == "two-eras":
        res.probe("two_eras")
    if meta.get("family"):
        res.probe("utc_instant_family")
    if meta.get("tzname_language"):
        res.probe("tzname_with_language")
    if meta.get("tzid_with_parameter"):
        res.probe("tzid_property_with_parameter")
    if meta.get("rules_from_1601"):
        res.probe("rules_from_1601")
    if any(ob.get("name") is None for ob in d["obs"]):
        res.probe("no_tzname")
    if d["tzid"].startswith("/"):
        res.probe("slash_prefixed_id")


def _check_parsed(res, stepno, op, tree, cal, defs, cache, provider, data):
    """Walk the file in line order, replaying what the cache model says each lookup saw."""
    own = {}     # clean id -> def index defined in this calendar
    for i, pos in cal["vtz"]:
        own[clean(defs[i]["def"]["tzid"])] = i
        _probe_shape(res, defs[i])
    before = [i for i, pos in cal["vtz"] if pos == "before"]
    after = [i for i, pos in cal["vtz"] if pos == "after"]
    for i in before:
        cache.define(defs[i]["def"]["tzid"], i)
    if after:
        # Calendar.from_ical parses a file with a VTIMEZONE after another component twice; by the second
        # pass every definition of the file is in the cache (unless an earlier one shadows it)
        for i in after:
            cache.define(defs[i]["def"]["tzid"], i)
    comps = [s for s in tree.subcomponents if s.name != "VTIMEZONE"]
    if len(comps) != len(cal["comps"]):
        res.violate("C12/parse/shape", stepno, f"{len(comps)} components parsed, {len(cal['comps'])} in the file")
        return
    log = []
    for comp, cp in zip(comps, cal["comps"]):
        for p in cp["props"]:
            tzid = p["tzid"]
            c = clean(tzid)
            tzs = _values_of(comp, p)
            if tzs is None:
                res.violate("C12/parse/value-missing", stepno, f"{cp['kind']}.{p['name']} not in the parsed tree")
                continue
            own_idx = own.get(c)
            known_to_provider = c in PROVIDER_ZONE
            eff_idx = cache.lookup(tzid)
            if own_idx is None:
                lookup_class = "absent"
            elif known_to_provider:
                lookup_class = "alias" if tzid.startswith("W.") else "provider-known"
            else:
                lookup_class = "own-before" if own_idx in before else "own-after"
            res.states.add(f"{provider}|{cache.signature()}|{lookup_class}")
            res.states.add(f"cov:{op}:{provider}:{lookup_class}")
            if own_idx is None:
                # the calendar does not define this id: the statement is silent
                log.append([p["name"], lookup_class, None])
                continue
            if eff_idx is not None and not known_to_provider:
                res.probe("lookup_served_from_cache")
            if own_idx in after and eff_idx == own_idx:
                res.probe("forward_reference_resolved_by_second_pass")
            if own_idx in after:
                res.probe("definition_after_first_user")
            if eff_idx is not None and eff_idx != own_idx and not known_to_provider:
                res.probe("same_id_redefined")
            if known_to_provider:
                res.probe("provider_known_id_redefined")
            D = defs[own_idx]["def"]
            ons, pts = ref_points(D, 40)
            if eff_idx is not None and eff_idx != own_idx:
                pts = sorted(set(pts) | set(ref_points(defs[eff_idx]["def"], 24)[1]))
                first = ons[0][0] if ons else None
                pts = [x for x in pts if first is not None and x >= first]
            ref = rfc_fingerprint(D, pts)
            verdicts = []
            for tz, value in tzs:
                v = _classify(res, stepno, op, tz, tzid, D, pts, ref, defs, own_idx, eff_idx,
                              known_to_provider, provider, lookup_class, cp, p)
                verdicts.append(v)
                if v == "ok":
                    _own_offset_check(res, stepno, f"{cp['kind']}.{p['name']};TZID={tzid} (provider {provider})", D, value,
                                      provider, tzid,
                                      defs[eff_idx]["def"] if eff_idx is not None and eff_idx != own_idx else None)
            log.append([p["name"], lookup_class, verdicts])
    for i in after:
        cache.define(defs[i]["def"]["tzid"], i)
    res.observe(stepno, op, log)


def _classify(res, stepno, op, tz, tzid, D, pts, ref, defs, own_idx, eff_idx, known_to_provider, provider,
              lookup_class, cp, p):
    where = f"{cp['kind']}.{p['name']};TZID={tzid} ({lookup_class}, provider {provider})"
    if tz is not None:
        obs = tz_fingerprint(tz, pts)
        if fp_equal(obs, ref):
            res.probe("value_matches_own_definition")
            return "ok"
        if provider == "zoneinfo":
            du_own = dateutil_direct(D)
            if du_own is not None and obs == tz_fingerprint(du_own, pts):
                # the calendar's own definition was used; only dateutil's reading of it deviates
                res.violate(SIG_DU, stepno, f"{where} ({defs[own_idx]['meta']}): " + fp_first_diff(obs, ref, pts))
                return "dateutil"
    # not what the calendar's own definition says: does the cache model explain it?
    if known_to_provider:
        if tz is not None and obs == tz_fingerprint(provider_zone(provider, PROVIDER_ZONE[clean(tzid)]), pts):
            res.violate(SIG_PROV, stepno, f"{where}: value carries the provider's {PROVIDER_ZONE[clean(tzid)]}, not the "
                        f"calendar's definition: " + fp_first_diff(obs, ref, pts))
            return "provider-known"
        res.violate("C12/parse/unexplained:provider-known", stepno, f"{where}: " +
                    (fp_first_diff(obs, ref, pts) if tz is not None else "naive value"))
        return "violation"
    if eff_idx is None:
        if tz is None:
            if lookup_class == "own-after":
                res.violate(SIG_FWD, stepno, f"{where}: VTIMEZONE stands after its first user and the zone cache was "
                            "cold: value parsed as naive")
                return "forward-naive"
            res.violate("C12/parse/naive-although-defined-before", stepno, where)
            return "violation"
        res.violate("C12/parse/unexplained:cold-cache", stepno, f"{where}: " + fp_first_diff(obs, ref, pts))
        return "violation"
    if tz is None:
        res.violate("C12/parse/naive-although-cached", stepno, where)
        return "violation"
    E = defs[eff_idx]["def"]
    eref = rfc_fingerprint(E, pts)
    du = dateutil_direct(E) if provider == "zoneinfo" else None
    matches_eff = fp_equal(obs, eref) or (du is not None and obs == tz_fingerprint(du, pts))
    if eff_idx != own_idx:
        if matches_eff:
            res.violate(SIG_FIRST, stepno, f"{where}: value follows definition #{eff_idx} cached earlier in the process, "
                        f"not the calendar's own #{own_idx}: " + fp_first_diff(obs, ref, pts))
            return "first-cached"
        res.violate("C12/parse/unexplained:other-definition-cached", stepno, f"{where}: " + fp_first_diff(obs, ref, pts))
        return "violation"
    # the effective definition is the calendar's own, yet the RFC fingerprint differs
    if du is not None and obs == tz_fingerprint(du, pts):
        res.violate(SIG_DU, stepno, f"{where} ({defs[own_idx]['meta']}): " + fp_first_diff(obs, ref, pts))
        return "dateutil"
    res.violate(f"C12/parse/{provider}/differs-from-rfc-onsets", stepno,
                f"{where} ({defs[own_idx]['meta']}): " + fp_first_diff(obs, ref, pts))
    return "violation"


def simplify_step(step):
    c, op, a = step
    if op == "parse":
        cal = a["cal"]
        for i in range(len(cal["comps"])):
            if len(cal["comps"]) > 1:
                yield [c, op, dict(a, cal=dict(cal, comps=cal["comps"][:i] + cal["comps"][i + 1:]))]
        for i, cp in enumerate(cal["comps"]):
            if len(cp["props"]) > 1:
                for j in range(len(cp["props"])):
                    cps = list(cal["comps"])
                    cps[i] = dict(cp, props=cp["props"][:j] + cp["props"][j + 1:])
                    yield [c, op, dict(a, cal=dict(cal, comps=cps))]
        for i in range(len(cal["vtz"])):
            yield [c, op, dict(a, cal=dict(cal, vtz=cal["vtz"][:i] + cal["vtz"][i + 1:]))]
        for i, cp in enumerate(cal["comps"]):
            for j, p in enumerate(cp["props"]):
                if len(p["walls"]) > 1:
                    cps = list(cal["comps"])
                    ps = list(cp["props"])
                    ps[j] = dict(p, walls=p["walls"][:1])
                    cps[i] = dict(cp, props=ps)
                    yield [c, op, dict(a, cal=dict(cal, comps=cps))]
