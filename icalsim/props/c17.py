"""C17 - components and parameter maps are dicts keyed by upper-cased names.

Fault-free, single-client degenerate case of the technique (DESIGN.md section 4, C17):
seeded operation histories on one mutable mapping, checked after every step against an
executable reference dictionary; the only fault kind is an operation that must fail
(missing key, an iterable that raises after j pairs) and must leave the state equal to
the model's.
"""
from collections import OrderedDict

ID = "C17"

RULE = ("each run = one operation history (construction + 3..25 mapping operations, keys from a pool of "
        "51 spellings of 16 names incl. bytes (some with a UTF-8 byte order mark), sharp-s, dotless-i and digraph case variants) on one of "
        "CaselessDict/Parameters/Component/Event/Calendar/Timezone, executed step by step against a "
        "reference dict keyed by to_unicode(key).upper(); non-trivial = the history reached at least one "
        "probe (case-variant hit, failing op checked for atomicity, derived object adopted, ...); distinct = "
        "distinct abstract histories (class, op kinds, key-case class and present/absent per step)")
STATE_MEASURE = "distinct sets of upper-cased names stored (16 names -> 65536 possible)"
STATE_SPACE = 65536
HARNESS_COMPONENTS = ["history generator", "reference dict model", "failing-iterable fault"]
ASSUMPTIONS = [
    "pop(key) is compared with dict.pop(KEY, None): the classes declare default=None themselves",
    "== against a plain mapping is only demanded for mappings whose keys are already upper-case "
    "(the statement is ambiguous about lower-case plain mappings; the code answers False)",
    "Component subjects are compared with ==/!= only against other components (C20 demands False "
    "for non-components, which conflicts with C17's 'any mapping')",
]

HISTORY_CHECK = True   # last runs of every chunk are re-observed alone in a fresh interpreter

TIERS = {
    "quick":    {"runs": 320000, "chunk": 10000, "hash_seeds": [0], "max_ops": 25, "timeout": 900},
    "thorough": {"runs": 3200000, "chunk": 50000, "max_wall": 2400, "hash_seeds": [0], "max_ops": 40, "timeout": 3000},
    "selftest": {"runs": 1600,   "chunk": 100,  "hash_seeds": [0], "max_ops": 25, "timeout": 300},
}
REQUIRED_PROBES = {
    "quick": ["case_variant_hit", "failed_op_atomic", "partial_update_atomic", "adopted_derived",
              "bytes_key", "special_casefold_key", "canonical_head_and_tail", "eq_with_none_value"],
}
REQUIRED_PROBES["thorough"] = REQUIRED_PROBES["quick"]

CLASSES = ["CaselessDict", "Parameters", "Component", "Event", "Calendar", "Timezone"]

# 51 spellings of 16 names
NAMES = {
    "SUMMARY": [["s", "summary"], ["s", "SUMMARY"], ["s", "Summary"], ["s", "sUmMaRy"],
                ["b", "summary"], ["b", "SUMMARY"], ["bom", "Summary"]],
    "DTSTART": [["s", "dtstart"], ["s", "DTSTART"], ["s", "DtStart"], ["b", "dtstart"]],
    "X-FOO": [["s", "x-foo"], ["s", "X-FOO"], ["s", "X-Foo"], ["bom", "x-foo"]],
    "TZID": [["s", "tzid"], ["s", "TZID"], ["b", "TzId"], ["bom", "TZID"]],
    "STRASSE": [["s", "straße"], ["s", "STRASSE"], ["s", "strasse"], ["b", "straße"]],
    "ID": [["s", "ıd"], ["s", "id"], ["s", "ID"]],
    "VERSION": [["s", "version"], ["s", "VERSION"]],
    "PRODID": [["s", "prodid"], ["s", "PRODID"]],
    "Ǆ": [["s", "ǆ"], ["s", "Ǆ"], ["s", "ǅ"]],
    # names that are also names of parameters of the mapping methods (a keyword argument must not bind to them)
    "OTHER": [["s", "other"], ["s", "OTHER"], ["s", "Other"]],
    "SELF": [["s", "self"], ["s", "Self"], ["b", "self"]],
    # two names whose order depends on how the characters between 'Z' and 'a' compare with letters
    "A_B": [["s", "a_b"], ["s", "A_B"], ["b", "A_b"]],
    "AAB": [["s", "aab"], ["s", "AAB"], ["s", "Aab"]],
    "A^": [["s", "a^"], ["s", "A^"]],
    # a name that is also the name of a component kind (a component may hold such subcomponents)
    "VEVENT": [["s", "vevent"], ["s", "VEVENT"], ["b", "Vevent"]],
    # bytes that are not UTF-8: decoded with replacement characters (one per undecodable byte), like any other name
    "\ufffdX": [["s", "\ufffdx"], ["s", "\ufffdX"], ["braw", "ff78"], ["braw", "ff58"]],
}
NAME_LIST = list(NAMES)
BYTES_SPECS = [s for specs in NAMES.values() for s in specs if s[0] != "s"]
SPECIAL = {"STRASSE", "ID", "Ǆ"}


class InjectedFault(Exception):
    pass


def key_py(spec):
    if spec[0] == "braw":
        return bytes.fromhex(spec[1])
    if spec[0] == "bom":     # bytes that start with a UTF-8 byte order mark: decoded with utf-8-sig, the mark goes
        return b"\xef\xbb\xbf" + spec[1].encode("utf-8")
    return spec[1].encode("utf-8") if spec[0] == "b" else spec[1]


def norm(spec):
    """The model's key: upper-cased text of the name."""
    if spec[0] == "braw":
        return bytes.fromhex(spec[1]).decode("utf-8", "replace").upper()
    return spec[1].upper()


def key_class(spec):
    if spec[0] in ("b", "bom", "braw"):
        return "bytes"
    s = spec[1]
    if s == s.upper():
        return "upper"
    if s == s.lower():
        return "lower"
    return "mixed"


# ---------------------------------------------------------------------------
# generation (reads the model only)

def _pick_key(rng, model, want_present=None):
    if want_present is None:
        want_present = rng.random() < 0.6
    present = [n for n in NAME_LIST if n in model]
    absent = [n for n in NAME_LIST if n not in model]
    pool = present if (want_present and present) else (absent or present)
    name = rng.choice(pool)
    return rng.choice(NAMES[name])


def _pairs(rng, val, n=None, strs_only=False):
    n = rng.randint(0, 4) if n is None else n
    out = []
    for j in range(n):
        name = rng.choice(NAME_LIST)
        specs = [s for s in NAMES[name] if not strs_only or s[0] == "s"]
        out.append([rng.choice(specs), val + j])
    return out


OPS = [
    ("getitem", 8), ("setitem", 10), ("delitem", 6), ("contains", 6), ("get", 5), ("get_default", 3),
    ("pop", 5), ("pop_default", 3), ("popitem", 2), ("setdefault", 4), ("setdefault_none", 2),
    ("update", 6), ("update_failing", 3), ("copy", 3), ("or", 2), ("ror", 2), ("ior", 2),
    ("fromkeys", 1), ("clear", 1), ("len", 2), ("listing", 3), ("eq", 4), ("sorted", 4), ("has_key", 2),
    ("iter", 1), ("noise_decode", 2), ("comp_add", 4), ("attach_sub", 1.5),
]


def generate(rng, cfg):
    from icalsim.rng import pick_weighted
    cls = rng.choice(CLASSES)
    how = rng.choice(["empty", "mapping", "pairs", "kwargs", "mapping+kwargs", "ordered", "same"])
    items = _pairs(rng, 100, strs_only=how in ("kwargs",))
    kw = _pairs(rng, 200, n=rng.randint(1, 2), strs_only=True) if how == "mapping+kwargs" else []
    trace = [[0, "new", {"cls": cls, "how": how, "items": items, "kw": kw}]]
    if rng.random() < 0.3:
        # another client of the process has decoded the same bytes as *values* before (other codecs than key folding)
        trace[0][2]["prime"] = [rng.choice(BYTES_SPECS) for _ in range(rng.randint(1, 3))]
    if how == "empty":
        items = []
    trace[0][2]["items"] = items
    model = OrderedDict()
    _m_update(model, effective(how, items))
    _m_update(model, effective("dict", kw))
    nops = rng.randint(3, cfg.get("max_ops", 25))
    # swarm: a random subset of op kinds is enabled per run
    enabled = [(o, w) for o, w in OPS if rng.random() < 0.8] or OPS
    for stepno in range(1, nops + 1):
        op = pick_weighted(rng, enabled)
        val = 1000 * stepno
        a = {}
        if op in ("getitem", "delitem", "contains", "get", "pop", "has_key", "setdefault_none"):
            a["k"] = _pick_key(rng, model)
        elif op == "comp_add":
            if cls in ("CaselessDict", "Parameters"):
                op = "setitem"       # plain maps have no add(); the step is an item assignment there
            a["k"] = _pick_key(rng, model, rng.random() < 0.4)
            a["v"] = val
        elif op in ("setitem", "setdefault"):
            a["k"] = _pick_key(rng, model, rng.random() < 0.45)
            a["v"] = None if rng.random() < 0.1 else val     # None is a value like any other
        elif op in ("get_default", "pop_default"):
            a["k"] = _pick_key(rng, model, rng.random() < 0.4)
            a["v"] = val
        elif op == "update":
            a["form"] = rng.choice(["dict", "pairs", "kwargs", "gen", "same", "dict+kwargs", "proxy", "userdict"])
            a["items"] = _pairs(rng, val, strs_only=a["form"] == "kwargs")
            a["kw"] = _pairs(rng, val + 50, n=rng.randint(1, 2), strs_only=True) if a["form"] == "dict+kwargs" else []
        elif op == "update_failing":
            a["items"] = _pairs(rng, val, n=rng.randint(1, 4))
            a["fail_after"] = rng.randint(0, len(a["items"]))
        elif op in ("copy",):
            a["adopt"] = rng.random() < 0.5
            a["mutate"] = _pick_key(rng, model, False)
            a["v"] = val
        elif op in ("or", "ror", "ior"):
            a["items"] = _pairs(rng, val)
            a["other"] = rng.choice(["dict", "same"] + (["pairs"] if op == "ior" else []))
            a["adopt"] = rng.random() < 0.5
            if op != "ior":
                a["mutate"] = _pick_key(rng, model, False)   # the result is written to: it must be an object of its own
                a["v"] = val + 99
        elif op == "fromkeys":
            a["keys"] = [p[0] for p in _pairs(rng, 0)]
            a["v"] = val
            a["adopt"] = rng.random() < 0.3
        elif op == "noise_decode":
            a["specs"] = [rng.choice(BYTES_SPECS) for _ in range(rng.randint(1, 2))]
        elif op == "attach_sub":
            a["kind"] = rng.choice(["VEVENT", "VEVENT", "VALARM"])
        elif op == "eq":
            a["other"] = rng.choice(["upper_dict", "same_anycase", "same_anycase", "differs", "other_class", "renamed"])
            a["spell"] = rng.randrange(1 << 30)
        step = [0, op, a]
        trace.append(step)
        _model_step(model, step, {})
        if op in ("copy", "or", "ror", "fromkeys") and a.get("adopt"):
            model = _derived_model(model, step, mutated=True)
    return {"cfg": {"provider": "zoneinfo"}, "trace": trace}


def abstract_sig(run):
    parts = []
    for _, op, a in run["trace"]:
        if op == "new":
            parts.append(f"new:{a['cls']}:{a['how']}:{len(a['items'])}")
        elif "k" in a:
            parts.append(f"{op}:{key_class(a['k'])}:{norm(a['k'])}")
        elif "items" in a:
            parts.append(f"{op}:{a.get('form', a.get('other', ''))}:{len(a['items'])}:{a.get('fail_after', '')}")
        else:
            parts.append(op)
    return "|".join(parts)


# ---------------------------------------------------------------------------
# the reference model

def _m_update(model, items):
    for k, v in items:
        model[norm(k)] = v


DICT_FORMS = ("mapping", "dict", "kwargs", "ordered", "mapping+kwargs", "dict+kwargs", "proxy", "userdict")


def effective(form, items):
    """The pairs the callee really sees: a plain dict argument has already collapsed
    identically spelled keys (first position, last value) before the call."""
    if form == "empty":
        return []
    if form in DICT_FORMS:
        d = OrderedDict()
        for k, v in items:
            d[(k[0], k[1])] = (k, v)
        return [[k, v] for (k, v) in d.values()]
    return items


def _derived_model(model, step, mutated=False):
    _, op, a = step
    if op == "copy":
        m = OrderedDict(model)
        if mutated:
            m[norm(a["mutate"])] = a["v"]
        return m
    if op == "or":
        m = OrderedDict(model)
        _m_update(m, effective(a["other"], a["items"]))
        if mutated and "mutate" in a:
            m[norm(a["mutate"])] = a["v"]
        return m
    if op == "ror":
        m = OrderedDict()
        _m_update(m, effective(a["other"], a["items"]))
        for k, v in model.items():
            m[k] = v
        if mutated and "mutate" in a:
            m[norm(a["mutate"])] = a["v"]
        return m
    if op == "fromkeys":
        m = OrderedDict()
        for k in a["keys"]:
            m[norm(k)] = a["v"]
        return m
    raise AssertionError(op)


def _model_step(model, step, out):
    """Apply `step` to the model in place; return ('ok', value) or ('exc', type name)."""
    _, op, a = step
    if op == "getitem":
        K = norm(a["k"])
        return ("ok", model[K]) if K in model else ("exc", "KeyError")
    if op == "setitem":
        model[norm(a["k"])] = a["v"]
        return ("ok", None)
    if op == "comp_add":
        # Component.add(name, value, encode=0): the route most properties take into a component; a second value of
        # one name makes a list
        K = norm(a["k"])
        if K not in model:
            model[K] = a["v"]
        elif isinstance(model[K], list):
            model[K] = model[K] + [a["v"]]
        else:
            model[K] = [model[K], a["v"]]
        return ("ok", None)
    if op == "delitem":
        K = norm(a["k"])
        if K in model:
            del model[K]
            return ("ok", None)
        return ("exc", "KeyError")
    if op in ("contains", "has_key"):
        return ("ok", norm(a["k"]) in model)
    if op == "get":
        return ("ok", model.get(norm(a["k"])))
    if op == "get_default":
        return ("ok", model.get(norm(a["k"]), a["v"]))
    if op == "pop":
        K = norm(a["k"])       # as a dictionary: no default, no key -> KeyError
        return ("ok", model.pop(K)) if K in model else ("exc", "KeyError")
    if op == "pop_default":
        return ("ok", model.pop(norm(a["k"]), a["v"]))
    if op == "popitem":
        if not model:
            return ("exc", "KeyError")
        k, v = model.popitem(last=True)
        return ("ok", [k, v])
    if op == "setdefault":
        return ("ok", model.setdefault(norm(a["k"]), a["v"]))
    if op == "setdefault_none":
        return ("ok", model.setdefault(norm(a["k"]), None))
    if op == "update":
        _m_update(model, effective(a["form"], a["items"]))
        _m_update(model, effective("dict", a.get("kw", [])))
        return ("ok", None)
    if op == "update_failing":
        _m_update(model, a["items"][:a["fail_after"]])
        return ("exc", "InjectedFault")
    if op == "ior":
        _m_update(model, effective(a["other"], a["items"]))
        return ("ok", None)
    if op == "clear":
        model.clear()
        return ("ok", None)
    if op == "len":
        return ("ok", len(model))
    return ("ok", None)


def canon(keys, order):
    order = list(order or [])
    head = [k for k in order if k in keys]
    tail = sorted(k for k in keys if k not in order)
    return head + tail


# ---------------------------------------------------------------------------
# execution against the real classes

def _cls(name):
    if name == "CaselessDict":
        from icalendar.caselessdict import CaselessDict
        return CaselessDict
    if name == "Parameters":
        from icalendar.parser import Parameters
        return Parameters
    import icalendar.cal as C
    return getattr(C, name)


def _build(cls, form, items, kw=()):
    pairs = [(key_py(k), v) for k, v in items]
    kwd = {key_py(k): v for k, v in kw}
    if form == "empty":
        return cls(), True
    if form in ("mapping", "dict"):
        # a plain dict cannot hold both 'a' and 'A' -> they are distinct keys, fine
        return cls(dict(pairs)), False
    if form == "pairs":
        return cls(pairs), False
    if form == "ordered":
        return cls(OrderedDict(pairs)), False
    if form == "kwargs":
        return cls(**dict(pairs)), False
    if form in ("mapping+kwargs", "dict+kwargs"):
        return cls(dict(pairs), **kwd), False
    if form == "same":
        return cls(cls(pairs)), False
    raise AssertionError(form)


def execute(run, res):
    from icalsim.values import describe
    trace = run["trace"]
    d = None
    model = None
    cls = None
    clsname = None
    for stepno, step in enumerate(trace):
        _, op, a = step
        res.steps += 1
        if op == "new":
            _noise_decode(res, a.get("prime", []))
            clsname = a["cls"]
            cls = _cls(clsname)
            how = "empty" if not a["items"] and a["how"] in ("mapping", "pairs", "kwargs", "ordered") else a["how"]
            try:
                d, _ = _build(cls, a["how"], a["items"], a.get("kw", ()))
            except Exception as e:
                res.violate(f"C17/new/{a['how']}/raised:{type(e).__name__}", stepno, repr(e))
                return
            model = OrderedDict()
            _m_update(model, effective(a["how"], a["items"]))
            _m_update(model, effective("dict", a.get("kw", [])))
            res.ops[f"new:{how}"] += 1
            _invariants(res, stepno, op, d, model, cls, clsname)
            continue
        if d is None:
            res.skipped += 1
            continue
        res.ops[op] += 1
        if op == "noise_decode":
            _noise_decode(res, a["specs"])
            _invariants(res, stepno, op, d, model, cls, clsname)
            continue
        if op == "attach_sub":
            # a component gets a subcomponent: no business of the mapping, which must go on as before
            if hasattr(d, "add_component"):
                import icalendar.cal as _C
                d.add_component(_C.Event() if a.get("kind", "VEVENT") == "VEVENT" else _C.Alarm())
                res.probe("component_has_subcomponents")
            _invariants(res, stepno, op, d, model, cls, clsname)
            continue
        if "k" in a:
            kc = key_class(a["k"])
            K = norm(a["k"])
            if K in model and key_py(a["k"]) != K:
                res.probe("case_variant_hit")
            if kc == "bytes":
                res.probe("bytes_key")
            if K in SPECIAL and a["k"][1] != K:
                res.probe("special_casefold_key")
            res.states.add("cov:%s:%s:%s" % (op, kc, "present" if K in model else "absent"))
        # ---- ops that create a new object ---------------------------------
        if op in ("copy", "or", "ror", "fromkeys"):
            new_model = _derived_model(model, _literal_step(step))
            try:
                if op == "copy":
                    new = d.copy()
                elif op == "or":
                    other = _other(cls, a)
                    new = d | other
                elif op == "ror":
                    other = _other(cls, a)
                    new = other | d
                else:
                    new = cls.fromkeys([key_py(k) for k in a["keys"]], a["v"])
            except Exception as e:
                res.violate(f"C17/{op}/raised:{type(e).__name__}", stepno, repr(e))
                continue
            if type(new) is not cls:
                res.violate(f"C17/{op}/result-type", stepno, f"{type(new).__name__} is not {clsname}")
                continue
            if list(new.items()) != list(new_model.items()):
                res.violate(f"C17/{op}/content", stepno,
                            f"got {list(new.items())!r} want {list(new_model.items())!r}")
            if op == "copy" or "mutate" in a:
                # independence: writing to the copy / the merged map must not reach the original (or the operand)
                if new is d:
                    res.violate(f"C17/{op}/aliased", stepno, "the result is the original object itself")
                    continue
                operand = list(other.items()) if op in ("or", "ror") else None
                new[key_py(a["mutate"])] = a["v"]
                new_model[norm(a["mutate"])] = a["v"]
                if list(d.items()) != list(model.items()):
                    res.violate(f"C17/{op}/aliased", stepno, "writing to the result changed the original")
                if operand is not None and list(other.items()) != operand:
                    res.violate(f"C17/{op}/aliased-operand", stepno, "writing to the result changed the other operand")
            res.observe(stepno, op, describe([list(k) for k in new.items()]))
            if a.get("adopt"):
                d, model = new, new_model
                res.probe("adopted_derived")
            _invariants(res, stepno, op, d, model, cls, clsname)
            continue
        # ---- comparisons ------------------------------------------------------
        if op == "eq":
            _check_eq(res, stepno, d, model, cls, clsname, a)
            continue
        if op == "sorted":
            want = canon(list(model.keys()), getattr(cls, "canonical_order", None))
            got = d.sorted_keys()
            if list(got) != want:
                res.violate("C17/sorted_keys/order", stepno, f"got {got!r} want {want!r}")
            try:
                goti = d.sorted_items()
            except Exception as e:
                res.violate(f"C17/sorted_items/raised:{type(e).__name__}", stepno, repr(e))
                goti = None
            if goti is not None and [list(x) for x in goti] != [[k, model[k]] for k in want]:
                res.violate("C17/sorted_items/order", stepno, f"got {goti!r}")
            order = list(getattr(cls, "canonical_order", None) or [])
            if any(k in order for k in model) and sum(1 for k in model if k not in order) >= 2:
                res.probe("canonical_head_and_tail")
            res.observe(stepno, op, describe(list(got)))
            # the lists handed out belong to the caller: what it does to them must not come back
            for handed_out in (got, goti):
                if isinstance(handed_out, list):
                    handed_out.reverse()
                    del handed_out[:1]
            continue
        if op in ("listing", "iter"):
            if op == "iter":
                got = [list(d), list(reversed(d))]
                want = [list(model), list(reversed(model))]
            else:
                got = [list(d.keys()), list(d.values()), [list(x) for x in d.items()]]
                want = [list(model.keys()), list(model.values()), [list(x) for x in model.items()]]
            if got != want:
                res.violate(f"C17/{op}/differs", stepno, f"got {got!r} want {want!r}")
            res.observe(stepno, op, describe(got))
            continue
        # ---- ops with a direct model counterpart ----------------------------------
        before = OrderedDict(model)
        want = _model_step(model, _literal_step(step), {})
        try:
            got = ("ok", _apply(d, cls, op, a))
        except InjectedFault:
            got = ("exc", "InjectedFault")
        except KeyError:
            got = ("exc", "KeyError")
        except Exception as e:
            got = ("exc", type(e).__name__)
        if op == "popitem" and got[0] == "ok":
            got = ("ok", list(got[1]))
        if op == "pop" and want == ("exc", "KeyError") and got == ("ok", None):
            # listed deviation: pop(key) of a missing key returns None where a dictionary raises KeyError
            res.violate("C17/pop/missing-key-returns-none", stepno, f"got {got!r} want {want!r} key={a.get('k')!r}")
        elif got != want:
            res.violate(f"C17/{op}/result", stepno, f"got {got!r} want {want!r} key={a.get('k')!r}")
        if want[0] == "exc":
            if op == "update_failing":
                res.probe("partial_update_atomic")
            else:
                res.probe("failed_op_atomic")
        res.observe(stepno, op, describe(list(got)))
        _invariants(res, stepno, op, d, model, cls, clsname)


def _noise_decode(res, specs):
    """Work of another client in the same process: the bytes that serve as keys here are values there, decoded
    with the codecs of the value types (utf-8, a caller-chosen one) - not with the key folding's utf-8-sig."""
    import icalendar.prop as P
    from icalendar.parser_tools import to_unicode
    for spec in specs:
        b = key_py(spec)
        for fn in (lambda: P.vText(b), lambda: P.vText(b, encoding="latin-1"), lambda: P.vCalAddress(b),
                   lambda: to_unicode(b, "latin-1"), lambda: P.vUri(b)):
            try:
                fn()
            except ValueError:
                pass
    if specs:
        res.probe("key_bytes_decoded_as_values_before")


def _literal_step(step):
    return step


def _other(cls, a):
    pairs = [(key_py(k), v) for k, v in a["items"]]
    if a["other"] == "pairs":
        return pairs
    return cls(pairs) if a["other"] == "same" else dict(pairs)


def _apply(d, cls, op, a):
    k = key_py(a["k"]) if "k" in a else None
    if op == "getitem":
        return d[k]
    if op == "setitem":
        d[k] = a["v"]
        return None
    if op == "comp_add":
        d.add(k, a["v"], encode=0)
        return None
    if op == "delitem":
        del d[k]
        return None
    if op == "contains":
        return k in d
    if op == "has_key":
        return d.has_key(k)
    if op == "get":
        return d.get(k)
    if op == "get_default":
        return d.get(k, a["v"])
    if op == "pop":
        return d.pop(k)
    if op == "pop_default":
        return d.pop(k, a["v"])
    if op == "popitem":
        return d.popitem()
    if op == "setdefault":
        return d.setdefault(k, a["v"])
    if op == "setdefault_none":
        return d.setdefault(k)
    if op == "update":
        pairs = [(key_py(x), v) for x, v in a["items"]]
        kw = {key_py(x): v for x, v in a.get("kw", [])}
        form = a["form"]
        if form == "dict":
            d.update(OrderedDict(pairs))
        elif form == "pairs":
            d.update(pairs)
        elif form == "kwargs":
            d.update(**OrderedDict(pairs))
        elif form == "gen":
            d.update(p for p in pairs)
        elif form == "proxy":
            import types
            d.update(types.MappingProxyType(OrderedDict(pairs)))     # a mapping that is not a dict
        elif form == "userdict":
            import collections
            d.update(collections.UserDict(OrderedDict(pairs)))
        elif form == "same":
            d.update(cls(pairs))
        elif form == "dict+kwargs":
            d.update(OrderedDict(pairs), **kw)
        return None
    if op == "update_failing":
        pairs = [(key_py(x), v) for x, v in a["items"]]

        def it():
            for j, p in enumerate(pairs):
                if j == a["fail_after"]:
                    raise InjectedFault(j)
                yield p
            raise InjectedFault(len(pairs))
        d.update(it())
        return None
    if op == "ior":
        other = _other(cls, a)
        d |= other
        return None
    if op == "clear":
        d.clear()
        return None
    if op == "len":
        return len(d)
    raise AssertionError(op)


def _check_eq(res, stepno, d, model, cls, clsname, a):
    import random
    g = random.Random(a["spell"])
    is_comp = clsname not in ("CaselessDict", "Parameters")
    kind = a["other"]
    subs = list(getattr(d, "subcomponents", []) or [])
    if subs and kind in ("upper_dict", "other_class"):
        kind = "same_anycase"      # a component with subcomponents is compared with components that have them, too
    if kind == "other_class" and is_comp:
        # a component (without subcomponents) and a plain caseless map with the same content
        from icalendar.caselessdict import CaselessDict
        other = CaselessDict([(key_py(g.choice(NAMES.get(K, [["s", K]]))), v) for K, v in model.items()])
        want = True
        kind = "component-vs-map"
    if kind == "component-vs-map":
        pass
    elif kind == "other_class":
        # another caseless mapping class with the same upper-cased content (Parameters vs CaselessDict)
        from icalendar.caselessdict import CaselessDict
        from icalendar.parser import Parameters
        oc = Parameters if cls is CaselessDict else CaselessDict
        other = oc([(key_py(g.choice(NAMES.get(K, [["s", K]]))), v) for K, v in model.items()])
        want = True
    elif kind == "renamed":
        # same size, same values, one name replaced by a name that is not there
        m2 = dict(model)
        if not m2:
            m2["EXTRA"] = None
        else:
            K = g.choice(sorted(m2))
            m2["ZZ-RENAMED"] = m2.pop(K)
        other = dict(m2) if (not is_comp and g.random() < 0.5) else cls(m2)
        want = False
        if any(v is None for v in model.values()):
            res.probe("eq_with_none_value")
    elif kind == "upper_dict":
        other = dict(model)
        want = True
    elif kind == "same_anycase":
        pairs = []
        for K, v in model.items():
            specs = [s for s in NAMES.get(K, [["s", K]])]
            pairs.append((key_py(g.choice(specs)), v))
        g.shuffle(pairs)
        other = cls(pairs)
        want = True
    else:
        m2 = dict(model)
        if m2 and g.random() < 0.6:
            K = g.choice(sorted(m2))
            if g.random() < 0.5:
                m2[K] = -1
            else:
                del m2[K]
        else:
            m2["EXTRA"] = 1
        other = cls(m2)
        want = False
    if subs and hasattr(other, "subcomponents"):
        other.subcomponents = list(subs)
    try:
        got = [d == other, other == d, d != other, other != d]
    except Exception as e:
        res.violate(f"C17/eq/raised:{type(e).__name__}", stepno, repr(e))
        return
    if got != [want, want, not want, not want]:
        res.violate(f"C17/eq/{kind}", stepno, f"got {got!r} want equal={want}; d={list(d.items())!r} "
                    f"other={type(other).__name__}{list(other.items())!r}")
    res.probe("eq_checked")
    res.observe(stepno, "eq", got)


def _invariants(res, stepno, op, d, model, cls, clsname):
    items = list(d.items())
    if items != list(model.items()):
        res.violate(f"C17/{op}/state", stepno, f"stored {items!r} want {list(model.items())!r}")
        # resynchronise the model so that one bug is reported once, not on every later step
        model.clear()
        for k, v in items:
            model[k] = v
    for k in d.keys():
        if not isinstance(k, str) or k != k.upper():
            res.violate(f"C17/{op}/non-upper-key", stepno, repr(k))
    if len(d) != len(model):
        res.violate(f"C17/{op}/len", stepno, f"{len(d)} != {len(model)}")
    res.states.add("keys:" + ",".join(sorted(model.keys())))


def simplify_step(step):
    c, op, a = step
    if "items" in a and a["items"]:
        for i in range(len(a["items"])):
            b = dict(a)
            b["items"] = a["items"][:i] + a["items"][i + 1:]
            if "fail_after" in b:
                b["fail_after"] = min(b["fail_after"], len(b["items"]))
            yield [c, op, b]
    if a.get("adopt"):
        b = dict(a)
        b["adopt"] = False
        yield [c, op, b]
    if op == "new" and a["cls"] != "CaselessDict":
        b = dict(a)
        b["cls"] = "CaselessDict"
        yield [c, op, b]
    if op == "new" and a["how"] != "pairs" and not a.get("kw"):
        b = dict(a)
        b["how"] = "pairs"
        yield [c, op, b]
