"""C04 - parsing is total: a result or ValueError; VEVENT isolates bad property lines.

What the simulator owns (DESIGN.md section 4, C04): the wire between a producer and a
consumer (channel fault models applied to documents that simulated producers wrote), and the
environment every delivery lands in: provider (both), tz-database layout (three views), and a
process-wide zone cache already filled by earlier - also failed - parses of other clients.
Termination is decided as a bounded number of interpreter line events per operation.
"""
import os
import signal
import sys
import traceback

from icalsim import faults as F
from icalsim import world, zonegen
from icalsim.result import BudgetExceeded
from icalsim.rng import digest, pick_weighted
from icalsim.snapshot import snap_component

ID = "C04"
RULE = ("each run = 3..12 steps by 1-4 clients in one simulated process: deliver a document (one of the repository's "
        "own .ics files <= 20 kB, a synthetic calendar with custom VTIMEZONEs, nesting <= 64, zoned/list/period "
        "values, or token soup in a sane skeleton) after 0-3 channel faults (torn, flipped bytes, garbage, lost/duplicated/swapped lines, lost/"
        "duplicated/moved blocks, interleaving or concatenation with another writer's document, refolding, hostile "
        "TZID/offset/date fields, structural token substitution) as bytes or str, single or multiple=True, then "
        "to_ical() and walk() on whatever came back; isolation differential on a damaged direct VEVENT line; "
        "environment events: provider switch, soft restart, tz-database view; every operation under a line-event "
        "budget; non-trivial = a fault fired or a probe was reached; distinct = distinct abstract runs (document "
        "id, fault kinds and positions class, environment)")
STATE_MEASURE = "distinct (provider, tz-database view, zone cache non-empty?, outcome class of the delivery) tuples"
STATE_SPACE = 2 * 3 * 2 * 2  # outcome classes on a healthy tree: parsed, ValueError (escape/budget only on violation)
COV_MEASURE = "fault kind x outcome class pairs"
HARNESS_COMPONENTS = ["producers (repository .ics files, synthetic calendars)", "durable store + channel fault models",
                      "clients", "op-level scheduler", "line-event step budget (sys.monitoring) + CPU watchdog",
                      "tz-database view (zoneinfo.reset_tzpath / load_tzdata filter)",
                      "process lifecycle: provider switch, soft restart"]
ASSUMPTIONS = [
    "arbitrary byte strings are reached only through the fault models applied to plausible documents (weaker than "
    "coverage-guided fuzzing)",
    "terminates = at most 6e6 + 2000*len(input) interpreter line events per operation and 30 s CPU",
    "behaviour under tz-database I/O errors (EIO, EACCES) is not constrained by the property and not injected",
]

HISTORY_CHECK = True   # last runs of every chunk are re-observed alone in a fresh interpreter

TIERS = {
    "quick":    {"runs": 5600,   "chunk": 100,  "hash_seeds": [0], "max_steps": 10, "timeout": 900},
    "thorough": {"history_check_cap": 200, "runs": 32000, "chunk": 400, "max_wall": 2400, "hash_seeds": [0, 11], "max_steps": 12, "timeout": 3400},
    "selftest": {"runs": 160,    "chunk": 20,   "hash_seeds": [0], "max_steps": 10, "timeout": 300},
}
REQUIRED_PROBES = {"quick": ["error_recorded_in_vevent", "non_lenient_container_raised", "delivery_with_warm_cache",
                             "hostile_id_reached_tz_lookup", "tzdb_view:package-only", "tzdb_view:tzpath-only",
                             "isolation_checked", "multiple_components_returned", "delivered_as_str", "long_run_delivered", "dictionary_run",
                             "parse_failed_after_caching_zone", "deep_nesting"]}
REQUIRED_PROBES["thorough"] = REQUIRED_PROBES["quick"]

LINE_BUDGET_BASE = 6_000_000
LINE_BUDGET_PER_BYTE = 2000
CPU_SECONDS = 30
# CPU time an operation may use: loops inside C code (regular expressions) produce no line events.  Exhausting
# the line budget takes about 4 s of CPU under monitoring, so anything beyond this bound is not interpreter work.
CPU_BOUND_BASE = 8.0
CPU_BOUND_PER_10KB = 1.0

_POOL = None


def doc_pool():
    """The repository's own .ics files <= 20 kB, sorted by path (text as latin-1 so it is JSON-safe)."""
    global _POOL
    if _POOL is None:
        root = os.path.join(os.environ.get("VERIF_REPO", "/repo"), "src", "icalendar", "tests")
        out = []
        for d, _, files in sorted(os.walk(root)):
            for f in sorted(files):
                if f.endswith(".ics"):
                    p = os.path.join(d, f)
                    if os.path.getsize(p) <= 20000:
                        out.append((os.path.relpath(p, root), open(p, "rb").read().decode("latin-1")))
        out.sort()
        _POOL = out
    return _POOL


# ---------------------------------------------------------------------------
# synthetic producers

SYN_IDS = ["Sim/A", "Sim/B", "/Sim/A", "Europe/Berlin", "America/New_York", "W. Europe Standard Time", "Sïm/Ü"]


def _fold(line):
    b = line.encode("utf-8")
    if len(b) <= 75:
        return line
    out, cur = [], ""
    n = 0
    for ch in line:
        w = len(ch.encode("utf-8"))
        if n + w > 74:
            out.append(cur)
            cur, n = " ", 1
        cur += ch
        n += w
    out.append(cur)
    return "\r\n".join(out)


def gen_synthetic(rng):
    lines = ["BEGIN:VCALENDAR", "VERSION:2.0", "PRODID:-//icalsim//C04//EN"]
    ids = rng.sample(SYN_IDS, rng.randint(1, 3))
    defs = {}
    after = []
    slow = []
    for tzid in ids:
        if rng.random() < 0.7:
            d, _ = zonegen.gen_definition(rng, tzid)
            defs[tzid] = d
            zl = zonegen.vtimezone_lines(d)
            r = rng.random()
            if r < 0.12:
                # zones as careless producers write them: only one kind of observance, or none at all
                kind = rng.choice(["DAYLIGHT", "DAYLIGHT", "STANDARD"])
                zl = [x.replace("STANDARD", kind).replace("DAYLIGHT", kind) if x.startswith(("BEGIN:", "END:")) else x
                      for x in zl]
            elif r < 0.15:
                zl = zl[:2] + zl[-1:]
            elif r < 0.21 and any("FREQ=YEARLY" in x for x in zl):
                # a rule that the zoneinfo path accepts lazily (it is expanded when an offset is first asked for)
                # and the pytz path rejects - together with values that invite arithmetic in that zone
                zl = [x.replace("FREQ=YEARLY", rng.choice(["FREQ=SECONDLY", "FREQ=MINUTELY", "FREQ=HOURLY"])) for x in zl]
                slow.append(tzid)
            if rng.random() < 0.75:
                lines += zl
            else:
                after += zl

    def dt(z=True):
        w = f"{rng.choice([1960, 1985, 2020, 2020, 2024, 2024, 2037, 1, 9999]):04}{rng.randint(1, 12):02}{rng.randint(1, 28):02}T{rng.randint(0, 23):02}{rng.choice([0, 30]):02}00"
        if w.startswith("0001"):
            w = "00010101T" + w[9:]          # the first and the last day there is
        elif w.startswith("9999"):
            w = "99991231T" + w[9:]
        r = rng.random()
        if not z or r < 0.3:
            return "", w
        if r < 0.5:
            return "", w + "Z"
        return ";TZID=" + rng.choice(ids), w
    ncomp = rng.randint(1, 4)
    for n in range(ncomp):
        kind = rng.choice(["VEVENT", "VEVENT", "VTODO", "VJOURNAL", "VFREEBUSY"])
        lines.append("BEGIN:" + kind)
        lines.append(f"UID:syn-{n}@example.com")
        p, w = dt()
        lines.append(f"DTSTART{p}:{w}")
        if rng.random() < 0.15:
            # UTC properties that name a zone all the same, at the ends of the calendar
            p2, _ = dt()
            lines.append(f"DTSTAMP{p2 or ';TZID=' + ids[0]}:" + rng.choice(["00010101T000000", "99991231T235959", "19700101T000000"]))
            lines.append(f"CREATED;TZID={rng.choice(ids)}:" + rng.choice(["00010101T003000", "99991231T233000"]))
        else:
            lines.append("DTSTAMP:20200101T000000Z")
        menu = rng.sample(range(13), rng.randint(2, 7))
        for m in menu:
            if m == 0:
                lines.append(_fold("SUMMARY:" + rng.choice(["Meeting", "Größe \\, semi\\; and\\nnewline", "日本語" * 20])))
            elif m == 1 and kind in ("VEVENT", "VFREEBUSY"):
                p, w = dt()
                lines.append(f"DTEND{p}:{w}")
            elif m == 2:
                p, w = dt()
                lines.append(f"RDATE{p}:{w},{w}")
            elif m == 3:
                lines.append("RRULE:FREQ=YEARLY;BYMONTH=3;BYDAY=-1SU;COUNT=5")
            elif m == 4:
                lines.append(_fold('ATTENDEE;CN="Doe, Jane";ROLE=REQ-PARTICIPANT;MEMBER="mailto:a@x.org","mailto:b@x.org":mailto:jane@example.com'))
            elif m == 5:
                lines.append("GEO:37.386013;-122.082932")
            elif m == 6:
                lines.append("CATEGORIES:A,B\\,C,D")
            elif m == 7 and kind == "VEVENT":
                lines.append("DURATION:PT1H30M")
            elif m == 8 and kind == "VFREEBUSY":
                lines.append("FREEBUSY;FBTYPE=BUSY:20200310T100000Z/PT1H,20200311T100000Z/20200311T120000Z")
            elif m == 9:
                p, w = dt()
                lines.append(f"EXDATE{p}:{w}")
            elif m == 10:
                lines.append("SEQUENCE:" + str(rng.randint(0, 9)))
            elif m == 12:
                # periods in local time of a zone: start/end and start/duration
                p, w = dt()
                end = w[:9] + f"{(int(w[9:11]) + 2) % 24:02}" + w[11:]
                if kind == "VFREEBUSY":
                    lines.append(f"FREEBUSY{p}:{w}/{end},{w}/PT90M")
                else:
                    lines.append(f"RDATE;VALUE=PERIOD{p}:{w}/{end},{w}/PT90M")
            elif m == 11 and kind in ("VEVENT", "VTODO"):
                lines += ["BEGIN:VALARM", "ACTION:DISPLAY", "TRIGGER;RELATED=END:-PT15M", "REPEAT:2", "DURATION:PT5M",
                          "DESCRIPTION:alarm", "END:VALARM"]
        if kind == "VEVENT" and rng.random() < 0.2:
            # a VEVENT nested in an unknown component nested in the event (leniency is per component, at any depth)
            lines += ["BEGIN:X-WRAP", "X-NOTE:wrapped", "BEGIN:VEVENT", f"UID:inner-{n}@example.com", "SUMMARY:inner",
                      "DTSTART:20200102T000000Z", "END:VEVENT", "END:X-WRAP"]
        if rng.random() < 0.25:
            depth = rng.choice([1, 2, 3, 8, 30, 64])
            for k in range(depth):
                lines.append(f"BEGIN:X-NEST{k % 3}")
                lines.append(f"X-LEVEL:{k}")
            for k in reversed(range(depth)):
                lines.append(f"END:X-NEST{k % 3}")
        lines.append("END:" + kind)
    for tzid in slow:
        a, b = "19700310T100000", "19700310T120000"
        lines += ["BEGIN:VFREEBUSY", "UID:slow-fb@example.com", "DTSTAMP:20200101T000000Z",
                  f"FREEBUSY;TZID={tzid}:{a}Z/{b},{a}/{b}Z,{a}/{b}", "END:VFREEBUSY",
                  "BEGIN:VEVENT", "UID:slow-ev@example.com", "DTSTAMP:20200101T000000Z", f"DTSTART;TZID={tzid}:{a}",
                  f"RDATE;VALUE=PERIOD;TZID={tzid}:{a}/{b}Z,{a}Z/PT1H", f"EXDATE;TZID={tzid}:{a}Z,{b}", "END:VEVENT"]
    lines += after
    lines.append("END:VCALENDAR")
    return ("\r\n".join(lines) + "\r\n")



# ---------------------------------------------------------------------------
# token soup: lines assembled from the iCalendar vocabulary with no document behind them.  The skeleton is kept
# sane (a VCALENDAR of mostly VEVENTs, so that a bad line is recorded and the parse goes on); names, VALUE
# types, parameters and values are combined freely inside it.

SOUP_COMPS = ["VEVENT", "VEVENT", "VEVENT", "VTODO", "VJOURNAL", "VFREEBUSY", "VTIMEZONE", "STANDARD", "DAYLIGHT", "VALARM",
              "X-COMP", "vevent", "VCALENDAR"]
SOUP_NAMES = ["DTSTART", "DTEND", "DUE", "DURATION", "RRULE", "EXRULE", "RDATE", "EXDATE", "FREEBUSY", "TRIGGER", "GEO",
              "ATTENDEE", "ORGANIZER", "ATTACH", "CATEGORIES", "RESOURCES", "SUMMARY", "DESCRIPTION", "COMMENT", "UID",
              "DTSTAMP", "CREATED", "LAST-MODIFIED", "COMPLETED", "RECURRENCE-ID", "SEQUENCE", "PRIORITY",
              "PERCENT-COMPLETE", "REPEAT", "STATUS", "TRANSP", "CLASS", "URL", "TZID", "TZNAME", "TZOFFSETFROM",
              "TZOFFSETTO", "TZURL", "VERSION", "PRODID", "CALSCALE", "METHOD", "ACTION", "REQUEST-STATUS", "RELATED-TO",
              "CONTACT", "LOCATION", "X-PROP", "X-WR-TIMEZONE", "ACKNOWLEDGED", "COLOR", "IMAGE", "CONFERENCE",
              "REFRESH-INTERVAL", "SOURCE", "NAME", "X-COMMENT", "BEGINX", "END-X"]
SOUP_VALUE_TYPES = ["BINARY", "BOOLEAN", "CAL-ADDRESS", "DATE", "DATE-TIME", "DURATION", "FLOAT", "INTEGER", "PERIOD", "RECUR",
                    "TEXT", "TIME", "URI", "UTC-OFFSET", "X-TYPE", "date", ""]
SOUP_TZIDS = ["Europe/Berlin", "America/New_York", "Sim/A", "UTC", "Nowhere/X", "W. Europe Standard Time", "/Sim/A"]
_SDT = ["20200310T100000", "20200310T100000Z", "20200310", "19700101T000000", "19810329T020000"]
SOUP_GOOD = _SDT + ["PT1H", "-P1D", "20200310T100000Z/PT1H", "20200310T100000/20200310T120000",
                    "FREQ=YEARLY;BYMONTH=3;BYDAY=-1SU", "FREQ=DAILY;COUNT=3", "1.5;2.5", "5", "+0100", "-0530", "mailto:a@x.org",
                    "text", "A,B", "TRUE", "100000", "100000Z", "aGVsbG8=", "2.0", "http://x.org/a", "20200310,20200311",
                    "20200310T100000,20200311T100000"]
SOUP_TYPED = {
    "DTSTART": _SDT, "DTEND": _SDT, "DUE": _SDT, "DTSTAMP": _SDT, "CREATED": _SDT, "LAST-MODIFIED": _SDT, "COMPLETED": _SDT,
    "RECURRENCE-ID": _SDT, "DURATION": ["PT1H", "-P1D", "P1W"], "TRIGGER": ["-PT15M", "20200310T100000Z", "PT0S"],
    "RRULE": ["FREQ=YEARLY;BYMONTH=3;BYDAY=-1SU", "FREQ=DAILY;COUNT=3"], "EXRULE": ["FREQ=DAILY;COUNT=3"],
    "RDATE": _SDT + ["20200310,20200311", "20200310T100000,20200311T100000", "20200310T100000Z/PT1H"],
    "EXDATE": _SDT + ["20200310T100000,20200311T100000"],
    "FREEBUSY": ["20200310T100000Z/PT1H", "20200310T100000/20200310T120000", "20200310T100000Z/PT1H,20200311T100000Z/PT2H"],
    "GEO": ["1.5;2.5"], "SEQUENCE": ["5"], "PRIORITY": ["1"], "PERCENT-COMPLETE": ["50"], "REPEAT": ["2"],
    "TZOFFSETFROM": ["+0100", "-0530", "+0200"], "TZOFFSETTO": ["+0100", "-0530", "+0200"],
    "ATTENDEE": ["mailto:a@x.org"], "ORGANIZER": ["mailto:o@x.org"], "ATTACH": ["http://x.org/a", "aGVsbG8="],
    "URL": ["http://x.org/a"], "TZID": SOUP_TZIDS, "CATEGORIES": ["A,B", "A"], "RESOURCES": ["A,B"]}
SOUP_PARAMS = ["RELATED=END", "RANGE=THISANDFUTURE", "FBTYPE=BUSY", 'CN="A, B"', "X-P=1,2", "LANGUAGE=de", 'ALTREP="cid:x"',
               "=", "X", 'X="', "X==", "=v", "A=1;A=2", 'X=a"b', "ENCODING=BASE64", "ENCODING=x", "FMTTYPE=text/plain"]


def _soup_line(rng, wild):
    name = rng.choice(SOUP_NAMES)
    params = ""
    for _ in range(rng.choice([0, 0, 1, 1, 2, 3] if wild else [0, 0, 0, 1])):
        k = rng.random()
        if k < 0.35:
            params += ";VALUE=" + rng.choice(SOUP_VALUE_TYPES)
        elif k < 0.65:
            params += ";TZID=" + rng.choice(SOUP_TZIDS + F.HOSTILE_TZIDS[:8])
        else:
            params += ";" + rng.choice(SOUP_PARAMS[:7] if not wild else SOUP_PARAMS)
    v = rng.random()
    typed = SOUP_TYPED.get(name, ["text", "A,B", "x\\, y"])
    if v < (0.45 if wild else 0.9):
        val = rng.choice(typed)
    elif v < 0.6 or not wild:
        val = rng.choice(SOUP_GOOD)
    elif v < 0.9:
        val = rng.choice(rng.choice([F.HOSTILE_RULES, F.HOSTILE_DATES, F.HOSTILE_OFFSETS, F.HOSTILE_DURATIONS,
                                     F.HOSTILE_NUMBERS, F.HOSTILE_URIS, F.HOSTILE_TEXTS]))
    else:
        val = ",".join(rng.choice(SOUP_GOOD) for _ in range(rng.randint(2, 4)))
    return _fold(f"{name}{params}:{val}")


def gen_soup(rng):
    lines = ["BEGIN:VCALENDAR", "VERSION:2.0"]
    stack = ["VCALENDAR"]
    for _ in range(rng.randint(4, 45)):
        r = rng.random()
        lenient = any(x.upper() == "VEVENT" for x in stack[-1:])
        if r < 0.2 and len(stack) < 8:
            c = rng.choice(SOUP_COMPS)
            lines.append("BEGIN:" + c)
            stack.append(c)
            if c in ("VEVENT", "VTODO", "VJOURNAL", "VFREEBUSY") and rng.random() < 0.7:
                lines.append("UID:soup")
        elif r < 0.34 and len(stack) > 1:
            c = stack.pop()
            lines.append("END:" + (rng.choice(SOUP_COMPS) if rng.random() < 0.1 else c))
        else:
            # outside a VEVENT one bad line ends the parse: keep most of those lines well-formed
            lines.append(_soup_line(rng, wild=lenient or rng.random() < 0.08))
    while stack and rng.random() < 0.93:
        lines.append("END:" + stack.pop())
    return "\r\n".join(lines) + "\r\n"

# ---------------------------------------------------------------------------
# generation

FAULT_WEIGHTS = [("run", 2), ("torn", 3), ("flip", 3), ("garbage", 2), ("lose_line", 4), ("dup_line", 4), ("swap_lines", 4),
                 ("lose_block", 3), ("dup_block", 3), ("move_block", 3), ("interleave", 3), ("concat", 2),
                 ("refold", 3), ("hostile_field", 6), ("token_subst", 5)]

DAMAGE = ["trunc-value", "bad-value", "no-colon", "bad-param", "bad-name", "ctl-param", "empty-value",
          "bad-tail", "bad-head", "multi-value-line"]


def _pick_doc(rng, pool):
    if rng.random() < 0.6 and pool:
        i = rng.randrange(len(pool))
        return "repo:" + pool[i][0], pool[i][1]
    if rng.random() < 0.3:
        return "soup", gen_soup(rng).encode("utf-8").decode("latin-1")
    return "syn", gen_synthetic(rng).encode("utf-8").decode("latin-1")


DICT_DOC = "\r\n".join([
    "BEGIN:VCALENDAR", "VERSION:2.0", "PRODID:-//icalsim//C04 dictionary//EN",
    "BEGIN:VTIMEZONE", "TZID:Sim/Dict",
    "BEGIN:DAYLIGHT", "DTSTART:19810329T020000", "TZOFFSETFROM:+0100", "TZOFFSETTO:+0200", "TZNAME:SDT",
    "RRULE:FREQ=YEARLY;BYMONTH=3;BYDAY=-1SU", "END:DAYLIGHT",
    "BEGIN:STANDARD", "DTSTART:19961027T030000", "TZOFFSETFROM:+0200", "TZOFFSETTO:+0100", "TZNAME:SST",
    "RRULE:FREQ=YEARLY;BYMONTH=10;BYDAY=-1SU", "END:STANDARD", "END:VTIMEZONE",
    "BEGIN:VEVENT", "UID:dict@example.com", "DTSTAMP:20200101T000000Z", "DTSTART;TZID=Sim/Dict:20200310T100000",
    "CREATED;TZID=Sim/Dict:00010101T000000", "LAST-MODIFIED;TZID=America/New_York:99991231T235959",
    "DTEND;TZID=Sim/Dict:20200310T110000", "RRULE:FREQ=WEEKLY;COUNT=3",
    "RDATE;TZID=Sim/Dict:20200311T100000,20200312T100000",
    "RDATE;VALUE=PERIOD;TZID=Sim/Dict:19700311T100000/19700311T110000,20200329T013000/20200329T033000",
    "EXDATE;TZID=Sim/Dict:20200317T100000,20200324T100000",
    "SEQUENCE:1", "GEO:1.0;2.0",
    "SUMMARY:dictionary event", "CATEGORIES:A,B", "URL:http://example.com/a", "ATTENDEE;CN=Jane:mailto:jane@example.com",
    "ATTACH:http://example.com/file", "END:VEVENT",
    "BEGIN:VTODO", "UID:dict-todo@example.com", "DTSTART;TZID=Sim/Dict:20200310T100000", "DURATION:PT1H",
    "BEGIN:VALARM", "TRIGGER:-PT15M", "ACTION:DISPLAY", "END:VALARM", "END:VTODO",
    "BEGIN:VFREEBUSY", "UID:dict-fb@example.com", "FREEBUSY:20200310T100000Z/PT1H",
    "FREEBUSY;TZID=Sim/Dict:19700310T100000/19700310T120000,20201025T013000/20201025T033000", "END:VFREEBUSY",
    "END:VCALENDAR", ""])

# (line prefix in DICT_DOC, hostile category, both providers?)
DICT_TARGETS = [
    ("RRULE:FREQ=YEARLY;BYMONTH=3", "rrule", True), ("RRULE:FREQ=YEARLY;BYMONTH=10", "rrule", True),
    ("RRULE:FREQ=WEEKLY", "rrule", False),
    ("DTSTART:19810329", "date", True), ("DTSTART;TZID=Sim/Dict:20200310T100000", "date", True),
    ("RDATE;TZID", "date", False), ("FREEBUSY:", "date", False),
    ("TZOFFSETFROM:+0100", "offset", True), ("TZOFFSETTO:+0100", "offset", True),
    ("TZID:Sim/Dict", "tzid-prop", True), ("DTSTART;TZID=Sim/Dict:20200310T100000", "tzid-param", True),
    ("DURATION:PT1H", "duration", False), ("TRIGGER:", "duration", False),
    ("SEQUENCE:", "number", False), ("GEO:", "number", False),
    ("URL:", "uri", False), ("ATTENDEE;CN=Jane", "uri", False), ("ATTACH:", "uri", False),
    ("SUMMARY:dictionary", "text", False), ("CATEGORIES:A,B", "text", False), ("TZNAME:SDT", "text", True),
    ("BEGIN:STANDARD", "component", True), ("BEGIN:DAYLIGHT", "component", True),
    ("RDATE;VALUE=PERIOD", "date", False), ("FREEBUSY;TZID", "date", False),
    ("ATTENDEE;CN=Jane", "params", False), ("SUMMARY:dictionary", "params", False),
    ("EXDATE;TZID", "tzid-param", False), ("RDATE;VALUE=PERIOD", "tzid-param", False), ("FREEBUSY;TZID", "tzid-param", False),
    ("EXDATE;TZID", "date", False),
]


def dict_combos():
    """Every (target line, hostile value, provider) of the dictionary, in a fixed order."""
    pools = {"rrule": F.HOSTILE_RULES, "date": F.HOSTILE_DATES, "offset": F.HOSTILE_OFFSETS,
             "tzid-prop": F.HOSTILE_TZIDS, "tzid-param": F.HOSTILE_TZIDS, "duration": F.HOSTILE_DURATIONS,
             "number": F.HOSTILE_NUMBERS, "uri": F.HOSTILE_URIS, "text": F.HOSTILE_TEXTS,
             "component": F.HOSTILE_COMPONENTS, "params": F.HOSTILE_PARAMS}
    lines = F._lines(DICT_DOC.encode("utf-8"))
    out = []
    for prefix, what, both in DICT_TARGETS:
        i = next(k for k, ln in enumerate(lines) if ln.decode("utf-8").startswith(prefix))
        for n, value in enumerate(pools[what]):
            for provider in (["pytz", "zoneinfo"] if both else [["pytz", "zoneinfo"][n % 2]]):
                out.append((i, what, value, provider))
    return out


_COMBOS = None


def generate(rng, cfg):
    global _COMBOS
    idx = cfg.get("_index")
    if idx is not None and idx % 4 == 3:
        # dictionary run: the hostile-field dictionary is enumerated systematically, one combination per run
        if _COMBOS is None:
            _COMBOS = dict_combos()
            # "enumerated completely by one quick run" is a promise of MANIFEST.json
            assert TIERS["quick"]["runs"] // 4 >= len(_COMBOS), "quick tier too small for the dictionary"
        i, what, value, provider = _COMBOS[(idx // 4) % len(_COMBOS)]
        trace = []
        if rng.random() < 0.3:
            trace.append(["env", "tzdb_view", {"view": rng.choice(["default", "package-only", "tzpath-only"])}])
        if rng.random() < 0.3:
            trace.append([1, "deliver", {"src": "dict", "doc": DICT_DOC.encode("utf-8").decode("latin-1"), "faults": [],
                                         "as": "bytes", "multiple": False, "entry": "Calendar"}])
        trace.append([0, "deliver", {"src": "dict", "doc": DICT_DOC.encode("utf-8").decode("latin-1"),
                                     "faults": [{"kind": "hostile_field", "i": i, "what": what, "value": value}],
                                     "as": rng.choice(["bytes", "str"]), "multiple": rng.random() < 0.3,
                                     "entry": rng.choice(["Calendar", "Calendar", "Component"])}])
        return {"cfg": {"provider": provider, "dictionary": True}, "trace": trace}
    pool = doc_pool()
    provider = rng.choice(["zoneinfo", "zoneinfo", "pytz"])
    nclients = rng.choice([1, 2, 3, 4])
    enabled = [(k, w) for k, w in FAULT_WEIGHTS if rng.random() < 0.7] or FAULT_WEIGHTS
    fault_free = rng.random() < 0.08
    trace = []
    nsteps = rng.randint(3, cfg.get("max_steps", 10))
    while len(trace) < nsteps:
        r = rng.random()
        c = rng.randrange(nclients)
        if r < 0.08:
            trace.append(["env", "provider_switch", {"p": rng.choice(["zoneinfo", "pytz"])}])
        elif r < 0.13:
            trace.append(["env", "soft_restart", {}])
        elif r < 0.2:
            trace.append(["env", "tzdb_view", {"view": rng.choice(["default", "package-only", "tzpath-only"])}])
        elif r < 0.38:
            src, doc = _pick_doc(rng, pool)
            trace.append([c, "isolate", {"src": src, "doc": doc, "pick": rng.randrange(1 << 20),
                                         "damage": rng.choice(DAMAGE), "seed": rng.randrange(1 << 30)}])
        else:
            src, doc = _pick_doc(rng, pool)
            fs = []
            nf = 0 if fault_free else rng.choice([0, 1, 1, 1, 2, 2, 3])
            cur = doc.encode("latin-1")
            for _ in range(nf):
                kind = pick_weighted(rng, enabled)
                other = b""
                if kind in ("interleave", "concat"):
                    other = _pick_doc(rng, pool)[1].encode("latin-1")
                f = F.draw(rng, cur, kind, other)
                if f is None:
                    continue
                fs.append(f)
                cur = F.apply(cur, f)
            trace.append([c, "deliver", {"src": src, "doc": doc, "faults": fs, "as": rng.choice(["bytes", "bytes", "bytes", "str", "str", "str-surrogates"]),
                                         "multiple": rng.random() < 0.4,
                                         "entry": rng.choice(["Calendar", "Calendar", "Calendar", "Component", "Event"])}])
    return {"cfg": {"provider": provider}, "trace": trace}


def abstract_sig(run):
    parts = [run["cfg"]["provider"]]
    for c, op, a in run["trace"]:
        if op == "deliver":
            parts.append("c%s:deliver:%s:%s:%s:%s" % (c, a["src"] if a["src"] not in ("syn", "soup") else a["src"] + digest(a["doc"])[:6],
                                                     a["as"], int(a["multiple"]),
                                                     ",".join(_fault_sig(f) for f in a["faults"])))
        elif op == "isolate":
            parts.append("c%s:isolate:%s:%s:%s" % (c, a["src"] if a["src"] not in ("syn", "soup") else a["src"] + digest(a["doc"])[:6],
                                                  a["damage"], a["pick"] % 7))
        else:
            parts.append(op + ":" + str(a.get("p") or a.get("view") or ""))
    return "|".join(parts)


def _fault_sig(f):
    k = f["kind"]
    if k == "hostile_field":
        return f"{k}/{f['what']}/{f['value'][:12]}"
    if k == "token_subst":
        return f"{k}/{f['token']}>{f['by'][:14]}"
    if k == "refold":
        return f"{k}/{f['variant']}"
    pos = f.get("k", f.get("i", f.get("block", 0)))
    return f"{k}/{pos // 64 if isinstance(pos, int) else 0}"


# ---------------------------------------------------------------------------
# step budget (termination as bounded steps)

class Budget:
    TOOL = 3   # sys.monitoring.PROFILER_ID .. any free id

    def __init__(self):
        self.count = 0
        self.limit = 0
        self.exceeded = False
        self.active = False
        self.mon = getattr(sys, "monitoring", None)

    def install(self):
        if self.mon is None or self.active:
            return
        try:
            self.mon.use_tool_id(self.TOOL, "icalsim-budget")
        except ValueError:
            pass
        self.mon.register_callback(self.TOOL, self.mon.events.LINE, self._line)
        self.active = True

    def _line(self, code, line):
        self.count += 1
        if self.count > self.limit:
            self.exceeded = True
            self.mon.set_events(self.TOOL, 0)
            raise BudgetExceeded(f"more than {self.limit} line events")

    def _alarm(self, signum, frame):
        self.exceeded = True
        raise BudgetExceeded(f"more than {CPU_SECONDS}s CPU")

    def run(self, nbytes, fn):
        """Run fn() under the budget; returns (outcome, value-or-exception, line events used)."""
        self.count = 0
        self.exceeded = False
        self.limit = LINE_BUDGET_BASE + LINE_BUDGET_PER_BYTE * nbytes
        self.install()
        # CPU time, not wall time: the verdict must not depend on how busy the machine is
        old = signal.signal(signal.SIGVTALRM, self._alarm)
        signal.setitimer(signal.ITIMER_VIRTUAL, CPU_SECONDS)
        if self.mon is not None:
            self.mon.set_events(self.TOOL, self.mon.events.LINE)
        import time as _t
        c0 = _t.process_time()
        try:
            try:
                val = fn()
                self.cpu = _t.process_time() - c0
                if self.cpu > CPU_BOUND_BASE + CPU_BOUND_PER_10KB * nbytes / 10240:
                    self.exceeded = True
                    return "budget", BudgetExceeded(f"{self.cpu:.1f}s CPU for {nbytes} bytes (the operation completed)"), self.count
                return "ok", val, self.count
            except BudgetExceeded as e:
                return "budget", e, self.count
            except BaseException as e:
                if isinstance(e, (KeyboardInterrupt, SystemExit)):
                    raise
                return "exc", e, self.count
        finally:
            if self.mon is not None:
                self.mon.set_events(self.TOOL, 0)
            signal.setitimer(signal.ITIMER_VIRTUAL, 0)
            signal.signal(signal.SIGVTALRM, old)


BUDGET = Budget()


def exc_signature(e):
    """Exception type + innermost frame inside the icalendar package."""
    where = "?"
    for fs in traceback.extract_tb(e.__traceback__):
        fn = fs.filename.replace("\\", "/")
        if "/icalendar/" in fn and "/icalsim/" not in fn:
            where = f"{fn.split('/icalendar/')[-1]}:{fs.name}"
    return f"{type(e).__name__}@{where}"


# ---------------------------------------------------------------------------
# execution

def _parse_and_use(res, stepno, data, multiple, tag, entry="Calendar"):
    """from_ical, then to_ical and walk on whatever came back. Returns (outcome class, components)."""
    import icalendar
    cls = {"Calendar": icalendar.Calendar, "Component": icalendar.cal.Component, "Event": icalendar.Event}[entry]
    nbytes = len(data)
    kind, val, used = BUDGET.run(nbytes, lambda: cls.from_ical(data, multiple=multiple))
    if BUDGET.exceeded or kind == "budget":
        if "CPU for" in str(val) and used < BUDGET.limit:
            res.violate("C04/termination/from_ical:cpu-time-outside-interpreter", stepno,
                        f"{tag}: {val} with only {used} line events - time spent inside C code")
            return "budget", None
        res.violate("C04/termination/from_ical:" + _where_budget(val) + _rule_class(data, _where_budget(val), val), stepno,
                    f"{tag}: step budget exhausted after {used} line events for {nbytes} bytes")
        return "budget", None
    if kind == "exc":
        if isinstance(val, ValueError):
            return "ValueError", None
        res.violate("C04/escape/from_ical:" + exc_signature(val), stepno, f"{tag}: {val!r}"[:500])
        return "escape", None
    comps = val if multiple else [val]
    for comp in comps:
        k2, v2, used2 = BUDGET.run(nbytes, lambda: (comp.to_ical(), comp.walk()))
        if BUDGET.exceeded or k2 == "budget":
            res.violate("C04/termination/to_ical-walk:" + _where_budget(v2), stepno,
                        f"{tag}: step budget exhausted after {used2} line events")
            return "budget", comps
        if k2 == "exc" and not isinstance(v2, ValueError):
            res.violate("C04/escape/to_ical-walk:" + exc_signature(v2), stepno, f"{tag}: {v2!r}"[:500])
            return "escape", comps
    return "parsed", comps


def _rule_class(data, where, exc=None):
    """When the budget ran out while a VTIMEZONE RRULE was being expanded, say what kind of rule it was,
    so that distinct causes get distinct signatures.  The rule is read from the frame that was expanding
    it (local `rrulestr` of Timezone._extract_offsets); the document text is only a fallback."""
    import re
    if "_extract_offsets" not in where:
        return ""
    rules = None
    tb = getattr(exc, "__traceback__", None)
    while tb is not None:
        if tb.tb_frame.f_code.co_name == "_extract_offsets" and isinstance(tb.tb_frame.f_locals.get("rrulestr"), str):
            rules = [tb.tb_frame.f_locals["rrulestr"]]
        tb = tb.tb_next
    if rules is None:
        text = data if isinstance(data, str) else data.decode("utf-8", "replace")
        rules = re.findall(r"(?im)^RRULE[^:\r\n]*:([^\r\n]*)", text)
    classes = set()
    for r in rules:
        u = r.upper()
        m = re.search(r"INTERVAL=(-?\d+)", u)
        c = re.search(r"COUNT=(\d+)", u)
        if m and int(m.group(1)) <= 0:
            classes.add("interval-not-positive")
        elif re.search(r"FREQ=(HOURLY|MINUTELY|SECONDLY)", u):
            classes.add("sub-daily-freq")
        elif c and int(c.group(1)) > 36600:
            classes.add("huge-count")
        else:
            classes.add("sparse-or-never-matching-rule")
    for k in ("interval-not-positive", "sub-daily-freq", "huge-count", "sparse-or-never-matching-rule"):
        if k in classes:
            return "/" + k
    return ""


def _where_budget(e):
    try:
        return exc_signature(e).split("@", 1)[1]
    except Exception:
        return "?"


def _errors_total(comps):
    n = 0
    in_event = 0
    for c in comps or []:
        for x in c.walk():
            n += len(x.errors)
            if x.name == "VEVENT":
                in_event += len(x.errors)
    return n, in_event


def execute(run, res):
    from icalsim import world as W
    from icalsim import values as V
    # the isolation oracle snapshots parsed trees; asking a zone that was built from a damaged VTIMEZONE for
    # its utcoffset() may expand a hostile RRULE for hours (found by the thorough tier: the *harness* hung),
    # so date-times are described by wall fields and zone label only
    V.OFFSETS = False
    view = "default"
    for stepno, (c, op, a) in enumerate(run["trace"]):
        res.steps += 1
        if c == "env":
            res.ops[op] += 1
            if op == "provider_switch":
                W.provider_switch(a["p"])
            elif op == "soft_restart":
                W.soft_restart()
            else:
                view = a["view"]
                W.tzdb_view(view)
                res.probe("tzdb_view:" + view)
            res.observe(stepno, op, [W.provider_name(), view])
            continue
        warm = bool(W.cache_ids())
        if op == "deliver":
            res.ops[op] += 1
            data = a["doc"].encode("latin-1")
            fired = []
            for f in a["faults"]:
                new = F.apply(data, f)
                if new != data:
                    res.faults[f["kind"]] += 1
                    fired.append(f["kind"])
                    if f["kind"] == "hostile_field" and f["what"].startswith("tzid"):
                        res.probe("hostile_id_reached_tz_lookup")
                data = new
            if len(data) > 65536:
                data = data[:65536]
            if "run" in fired:
                res.probe("long_run_delivered")
            if a["src"] == "dict" and fired:
                res.probe("dictionary_run")
                f0 = a["faults"][0]
                res.states.add("cov:dict:%s:%s" % (f0["what"], digest(f0["value"])[:6]))
            if warm:
                res.probe("delivery_with_warm_cache")
            payload = data
            if a["as"] == "str":
                payload = data.decode("utf-8", "replace")
                res.probe("delivered_as_str")
            elif a["as"] == "str-surrogates":
                # a caller that decoded the file with errors='surrogateescape': lone surrogates in the text
                payload = data.decode("utf-8", "surrogateescape")
                res.probe("delivered_as_str")
            before_ids = set(W.cache_ids())
            entry = a.get("entry", "Calendar")
            res.ops["entry:" + entry] += 1
            outcome, comps = _parse_and_use(res, stepno, payload, a["multiple"],
                                            f"deliver {a['src']} faults={fired} via {entry}.from_ical", entry)
            if outcome != "parsed" and set(W.cache_ids()) - before_ids:
                res.probe("parse_failed_after_caching_zone")
            if outcome == "parsed":
                tot, inev = _errors_total(comps)
                if inev:
                    res.probe("error_recorded_in_vevent")
                if a["multiple"] and len(comps) > 1:
                    res.probe("multiple_components_returned")
                if b"X-NEST" in data and data.count(b"BEGIN:X-NEST") >= 30:
                    res.probe("deep_nesting")
                if not a["faults"]:
                    res.probe("fault_free_delivery_parsed")
            elif outcome == "ValueError" and fired:
                res.probe("non_lenient_container_raised")
            res.states.add(f"{W.provider_name()}|{view}|{int(warm)}|{outcome}")
            for k in fired or ["none"]:
                res.states.add(f"cov:{k}:{outcome}")
            res.observe(stepno, op, [outcome, digest(data.decode('latin-1'))[:10]])
        elif op == "isolate":
            res.ops[op] += 1
            _isolate(res, stepno, a)
    if view != "default":
        W.tzdb_view("default")


# ---------------------------------------------------------------------------
# isolation differential (oracle 3)

def _logical_lines(text):
    import re
    return [ln for ln in re.split(r"\r?\n", re.sub(r"\r?\n[ \t]", "", text)) if ln]


def _damage(line, kind, g):
    name = line.split(":", 1)[0].split(";", 1)[0]
    head, _, value = line.partition(":")
    if kind == "trunc-value":
        if len(value) < 2:
            return None
        out = head + ":" + value[:g.randrange(0, len(value) - 1)]
    elif kind == "bad-value":
        out = head + ":" + g.choice(F.HOSTILE_DATES + F.HOSTILE_OFFSETS + F.HOSTILE_DURATIONS + F.HOSTILE_NUMBERS
                                    + F.HOSTILE_RULES[:12] + ["12x", "PXD", "1;", "FREQ=", "TRUE?", "\\"])
    elif kind == "no-colon":
        out = g.choice([name, name + ";X=1", name + ";"])
    elif kind == "bad-param":
        out = g.choice([f"{name};=x:{value}", f"{name};TZID:{value}", f'{name};X="unterminated:{value}',
                        f"{name};X=a=b;;:{value}", f"{name};X:{value}"])
    elif kind == "bad-name":
        out = g.choice([f"NA ME:{value}", f":{value}", f"NÄME*:{value}", f"{name}!:{value}", f"{name} :{value}"])
    elif kind == "ctl-param":
        out = f"{name};X=a\x01b:{value}"
    elif kind == "bad-tail":
        out = head + ":" + value + "," + g.choice(["garbage", "20200230", "PXD", "99999999T999999", "/"])
    elif kind == "bad-head":
        out = head + ":" + g.choice(["garbage", "20200230", "PXD", "/", ""]) + "," + value
    elif kind == "multi-value-line":
        # a comma-separated line of which only some entries are good: the whole line must go, not half of it
        good_p, good_d = "20200310T100000Z/PT1H", "20200310T100000Z"
        out = g.choice([f"FREEBUSY:{good_p},garbage", f"FREEBUSY:{good_p},{good_p},20200311T100000Z/20200310T100000Z",
                        f"FREEBUSY;FBTYPE=BUSY:garbage,{good_p}", f"RDATE:{good_d},garbage", f"EXDATE:garbage,{good_d}",
                        f"RDATE;VALUE=PERIOD:{good_p},20200101/20200102", f"FREEBUSY:{good_p},99991231T235959Z/PT1H"])
    else:
        out = head + ":"
    if "\n" in out or "\r" in out or out[:1] in (" ", "\t") or not out:
        return None
    if out.split(":", 1)[0].split(";", 1)[0].strip().upper() in ("BEGIN", "END"):
        return None
    return out


def _strip_errors(snap):
    errs = []

    def walk(s, path):
        errs.append((path, s["name"], s["errors"]))
        s = dict(s, errors=[], subs=[walk(x, path + (i,)) for i, x in enumerate(s["subs"])])
        return s
    return walk(snap, ()), errs


def _isolate(res, stepno, a):
    import random
    from icalendar import Calendar
    g = random.Random(a["seed"])
    text = a["doc"].encode("latin-1").decode("utf-8", "replace")
    lines = _logical_lines(text)
    stack = []      # entries: [name, direct property lines (kept for VEVENTs), lines inherited from closed descendants]
    cands = []
    for i, ln in enumerate(lines):
        u = ln.upper()
        if u.startswith("BEGIN:"):
            stack.append([u[6:], [], []])     # exactly as the parser sees it: 'VEVENT\r' is not a VEVENT
        elif u.startswith("END:"):
            if stack:
                name, mine, inherited = stack.pop()
                if u[4:] != name:
                    continue            # mismatched END: nothing below it is used
                keep = (mine if name == "VEVENT" else []) + inherited
                if stack:
                    stack[-1][2].extend(keep)     # a VEVENT at any depth, all enclosing blocks properly closed
                else:
                    cands.extend(keep)
        elif stack and stack[-1][0] == "VEVENT":
            stack[-1][1].append(i)
    if not cands:
        res.probe("isolate_skipped_no_vevent_line")
        return
    i = cands[a["pick"] % len(cands)]
    bad = _damage(lines[i], a["damage"], g)
    if bad is None:
        res.probe("isolate_skipped_no_damage")
        return
    removed = "\r\n".join(lines[:i] + lines[i + 1:]) + "\r\n"
    damaged = "\r\n".join(lines[:i] + [bad] + lines[i + 1:]) + "\r\n"
    # the undamaged rest must be a document the parser accepts, otherwise there is nothing to compare with
    o0, base = _parse_and_use(res, stepno, removed.encode("utf-8"), True, "isolate/removed")
    if o0 != "parsed":
        res.probe("isolate_skipped_unparsable_base")
        return
    o1, got = _parse_and_use(res, stepno, damaged.encode("utf-8"), True, f"isolate/damaged {bad[:60]!r}")
    if o1 in ("escape", "budget"):
        return
    res.probe("isolation_attempted")
    n0, e0 = _errors_total(base)
    if o1 == "ValueError":
        # a line that cannot be parsed inside a VEVENT must be dropped and recorded, not fail the parse -
        # unless the same text also breaks the structure for a reason other than this line (it cannot:
        # the rest parsed above)
        res.violate("C04/isolation/vevent-line-failed-the-parse", stepno,
                    f"damaged line {bad[:120]!r} in a VEVENT made from_ical raise ValueError")
        return
    n1, e1 = _errors_total(got)
    s_base, errs_base = _strip_errors({"name": "<doc>", "errors": [], "subs": [snap_component(c) for c in base],
                                       "props": [], "cls": ""})
    s_got, errs_got = _strip_errors({"name": "<doc>", "errors": [], "subs": [snap_component(c) for c in got],
                                     "props": [], "cls": ""})
    if n1 == n0:
        if s_base == s_got:
            # neither recorded as an error nor present as a property: the line vanished silently
            res.violate("C04/isolation/line-dropped-without-record", stepno,
                        f"damaged line {bad[:120]!r} left no error entry and no property in the VEVENT")
        else:
            res.probe("isolate_line_still_parsed")
        return
    res.probe("isolation_checked")
    if s_base != s_got:
        from icalsim.props.c10 import _first_diff
        res.violate("C04/isolation/other-content-changed", stepno,
                    f"damaged line {bad[:120]!r}: tree differs from the parse without the line: "
                    + _first_diff(s_base, s_got))
        return
    new = []
    for (p0, nm0, x0), (p1, nm1, x1) in zip(errs_base, errs_got):
        if x0 != x1:
            rest = list(x1)
            for e in x0:          # multiset difference: the new entry may stand before older ones
                if e in rest:
                    rest.remove(e)
            new.append((nm1, rest))
    bad_name = bad.split(":", 1)[0].split(";", 1)[0].upper()
    ok = len(new) == 1 and new[0][0] == "VEVENT" and len(new[0][1]) == 1 and \
        (new[0][1][0][0] in (None, bad_name))
    if not ok:
        res.violate("C04/isolation/error-record", stepno,
                    f"damaged line {bad[:120]!r}: expected exactly one new error entry for {bad_name!r} in the VEVENT, "
                    f"got {new!r}")
        return
    # (c) the same line outside a lenient component must fail the parse with ValueError
    for kind in ("VTODO", None):
        if kind:
            twin = f"BEGIN:VCALENDAR\r\nBEGIN:{kind}\r\n{bad}\r\nEND:{kind}\r\nEND:VCALENDAR\r\n"
        else:
            twin = f"BEGIN:VCALENDAR\r\n{bad}\r\nEND:VCALENDAR\r\n"
        o2, _ = _parse_and_use(res, stepno, twin.encode("utf-8"), False, f"isolate/twin {kind}")
        if o2 == "parsed":
            res.violate("C04/isolation/non-lenient-accepted", stepno,
                        f"line {bad[:120]!r} is an error inside VEVENT but was accepted in {kind or 'VCALENDAR'}")
        elif o2 == "ValueError":
            res.probe("non_lenient_container_raised")
    res.observe(stepno, "isolate", [bad_name, a["damage"]])


def simplify_step(step):
    c, op, a = step
    if op == "deliver":
        for i in range(len(a["faults"])):
            yield [c, op, dict(a, faults=a["faults"][:i] + a["faults"][i + 1:])]
        if a["as"] != "bytes":
            yield [c, op, dict(a, **{"as": "bytes"})]
        if a["multiple"]:
            yield [c, op, dict(a, multiple=False)]
        if a.get("entry", "Calendar") != "Calendar":
            yield [c, op, dict(a, entry="Calendar")]
        doc = a["doc"].encode("latin-1")
        if a["faults"]:
            # materialise: the delivered bytes become the document, so that it can be shrunk line by line
            cur = doc
            for f in a["faults"]:
                cur = F.apply(cur, f)
            yield [c, op, dict(a, doc=cur[:65536].decode("latin-1"), faults=[], src=a["src"] + "+faults")]
        else:
            yield from (([c, op, dict(a, doc=d)]) for d in _doc_candidates(doc))
    if op == "isolate":
        yield from (([c, op, dict(a, doc=d)]) for d in _doc_candidates(a["doc"].encode("latin-1")))


def _doc_candidates(doc):
    lines = F._lines(doc)
    n = len(lines)
    if n <= 1:
        return
    seen = set()

    def emit(keep):
        d = b"".join(keep).decode("latin-1")
        if d not in seen and len(keep) < n:
            seen.add(d)
            return d
        return None
    for parts in (2, 4, 8):
        size = max(1, n // parts)
        for s in range(0, n, size):
            d = emit(lines[:s] + lines[s + size:])
            if d is not None:
                yield d
    for s, e in sorted(F._blocks(lines), key=lambda b: b[0] - b[1])[:10]:
        d = emit(lines[:s] + lines[e:])
        if d is not None:
            yield d
    if n <= 40:
        for i in range(n):
            d = emit(lines[:i] + lines[i + 1:])
            if d is not None:
                yield d
