"""C16 - start/end/duration of events and todos obey the RFC rules after any edit history.

Fault-free, single-client degenerate case of the technique (DESIGN.md section 4, C16):
seeded setter/deleter/add/parse histories on one Event, Todo or Journal, checked after
every step against an executable three-field reference model.  The only fault kind is an
operation that must be rejected (TypeError) and must leave the state untouched.
"""
from datetime import date, datetime, timedelta

from icalsim.values import describe_plain as describe, to_py

ID = "C16"
RULE = ("each run = one edit history (construction by API or by parsing a text with an arbitrary subset of "
        "DTSTART/DTEND|DUE/DURATION, then 2..12 operations: assign/None-assign/del of start, end, DTSTART, "
        "DTEND|DUE, DURATION; add(); item assignment; serialise-and-parse; rejected-argument calls) on Event, "
        "Todo or Journal with date, floating, UTC, zoneinfo- and pytz-zoned values and +/-/0, whole-day and "
        "sub-day durations; after every step the six getters are compared with the reference model's allowed "
        "outcomes and the stored properties with the model's; non-trivial = reached a probe (forbidden state, "
        "exclusive sibling removed, rejected call checked for atomicity, default end derived, ...); "
        "distinct = distinct abstract histories (class, op kind, value class per step)")
STATE_MEASURE = ("abstract state = (DTSTART in {absent,date,floating,aware,multi}) x (end property likewise) x "
                 "(DURATION in {absent,whole-day,sub-day,multi})")
STATE_SPACE = 92  # 100 minus the 8 floating/aware mixes that are excluded by construction
COV_MEASURE = "op kind x abstract pre-state pairs"
HARNESS_COMPONENTS = ["history generator", "three-field reference model", "rejected-argument fault"]
ASSUMPTIONS = [
    "floating and zoned/UTC date-times are never mixed inside one component (RFC-forbidden but not listed "
    "in the statement; end - start raises TypeError there, neither demanded nor flagged)",
    "in a forbidden state `start` may either raise InvalidCalendar or return DTSTART; `end` and `duration` "
    "must raise InvalidCalendar",
    "with a multi-valued DTSTART/end/DURATION (reachable through add()) only the exception *type* is "
    "constrained (InvalidCalendar / IncompleteComponent)",
    "DTEND without DTSTART: `end` may return DTEND or raise IncompleteComponent (statement silent)",
]

HISTORY_CHECK = True   # last runs of every chunk are re-observed alone in a fresh interpreter

TIERS = {
    "quick":    {"runs": 240000,  "chunk": 7500,  "hash_seeds": [0], "max_ops": 12, "timeout": 900},
    "thorough": {"runs": 3200000, "chunk": 50000, "max_wall": 2400, "hash_seeds": [0], "max_ops": 16, "timeout": 3000},
    "selftest": {"runs": 1600,    "chunk": 100,   "hash_seeds": [0], "max_ops": 12, "timeout": 300},
}
REQUIRED_PROBES = {"quick": ["forbidden_both", "forbidden_mismatch", "forbidden_subday", "sibling_removed",
                             "rejected_call_atomic", "default_end_date", "default_end_datetime",
                             "end_from_duration", "missing_start", "parsed_state", "multi_valued",
                             "duration_crosses_dst"]}
REQUIRED_PROBES["thorough"] = REQUIRED_PROBES["quick"]

DAY = timedelta(days=1)

DATES = [["date", 2020, 3, 10], ["date", 2020, 3, 12], ["date", 2020, 3, 1], ["date", 2020, 10, 25]]
FLOATING = [["dt", 2020, 3, 10, 10, 0, 0, None], ["dt", 2020, 3, 10, 12, 30, 0, None],
            ["dt", 2020, 3, 12, 0, 0, 0, None], ["dt", 2020, 3, 9, 23, 59, 59, None]]
AWARE = [["dt", 2020, 3, 10, 10, 0, 0, ["utc"]], ["dt", 2020, 3, 10, 12, 30, 0, ["utc"]],
         ["dt", 2020, 3, 28, 12, 0, 0, ["zi", "Europe/Berlin"]], ["dt", 2020, 3, 29, 12, 0, 0, ["zi", "Europe/Berlin"]],
         ["dt", 2020, 3, 29, 1, 30, 0, ["zi", "Europe/Berlin"]],
         ["dt", 2020, 3, 7, 12, 0, 0, ["pytz", "America/New_York"]],
         ["dt", 2020, 3, 8, 12, 0, 0, ["pytz", "America/New_York"]],
         ["dt", 2020, 10, 25, 2, 30, 0, ["zi", "Europe/Berlin"]],
         # the same wall-clock time an hour later (fold=1, +01:00): only the API can say so, no text carries it
         ["dt", 2020, 10, 25, 2, 30, 0, ["zi", "Europe/Berlin", 1]], ["dt", 2020, 10, 25, 2, 0, 0, ["zi", "Europe/Berlin", 1]]]
# no dateutil-zoned values: after a serialise-and-parse step the value carries the provider's zone object, and
# dateutil and zoneinfo disagree about the UTC offset of wall times inside a DST gap (a false alarm of the
# harness, found by the benign-mutant self-test, when such a value was in the pool)
DURS = [["td", 1, 0], ["td", 2, 0], ["td", 7, 0], ["td", 0, 5400], ["td", 0, 0], ["td", -1, 0],
        ["td", -1, 82800], ["td", 1, 3600], ["td", 0, 45]]
# what arithmetic in client code produces and no text can carry: parts below a second
DURS_API = DURS + [["td", 2, 0, 500000], ["td", 0, 3600, 250000], ["td", 1, 0, 1]]
BAD = [["s", "20200310"], ["i", 5], ["f", 1.5], ["list", []]]

CLASSES = ["Event", "Event", "Todo", "Todo", "Journal"]


def endname(cls):
    return "DUE" if cls == "Todo" else "DTEND"


# ---------------------------------------------------------------------------
# the model: three slots, each None | ["one", spec] | ["multi", [spec...]]

class Model:
    provider = "zoneinfo"     # the process-wide provider decides which zone objects parsing hands back

    def __init__(self, cls):
        self.cls = cls
        self.S = None
        self.E = None
        self.D = None
        self.pure = True   # only setters/deleters so far -> exclusivity must hold

    def copy_state(self):
        return (self.S, self.E, self.D)

    def slot(self, name):
        return {"DTSTART": "S", "END": "E", "DURATION": "D"}[name]

    def get(self, name):
        return getattr(self, self.slot(name))

    def put(self, name, v):
        setattr(self, self.slot(name), v)

    # ---- transitions ------------------------------------------------------
    def set(self, attr, spec):
        """Property setter semantics. attr in start,end,DTSTART,END,DURATION."""
        name = {"start": "DTSTART", "end": "END"}.get(attr, attr)
        if self.cls == "Journal" and name == "END":
            name = "DTSTART"  # Journal.end is the same property as start
        if spec[0] == "n":
            self.put(name, None)
            return
        self.put(name, ["one", spec])
        if self.cls != "Journal":
            if name == "END":
                self.D = None
            elif name == "DURATION":
                self.E = None

    def delete(self, name):
        self.put(name, None)

    def add(self, name, spec):
        cur = self.get(name)
        if cur is None:
            self.put(name, ["one", spec])
        elif cur[0] == "one":
            self.put(name, ["multi", [cur[1], spec]])
        else:
            self.put(name, ["multi", cur[1] + [spec]])
        self.pure = False

    def setitem(self, name, spec):
        self.put(name, ["one", spec])
        self.pure = False

    def roundtrip(self):
        def conv(spec):
            if spec[-1] == "sub":      # parsing hands back plain dates and datetimes
                spec = spec[:-1]
            if spec[0] == "td" and len(spec) > 3:      # the text of a DURATION ends at the seconds
                spec = spec[:3]
            if spec[0] == "dt" and spec[7] and spec[7][0] == "zi" and len(spec[7]) > 2:
                spec = spec[:7] + [spec[7][:2]] + spec[8:]      # ... and no text says which of two equal times
            if spec[0] == "dt" and spec[7] and spec[7][0] in ("pytz", "zi"):
                return spec[:7] + [["zi" if self.provider == "zoneinfo" else "pytz", spec[7][1]]]
            return spec
        for n in ("S", "E", "D"):
            v = getattr(self, n)
            if v is None:
                continue
            if v[0] == "one":
                setattr(self, n, ["one", conv(v[1])])
            else:
                setattr(self, n, ["multi", [conv(x) for x in v[1]]])

    # ---- classification -----------------------------------------------------
    def exotic(self):
        return any(v is not None and v[0] == "multi" for v in (self.S, self.E, self.D))

    def abstract(self):
        def c(v, dur=False):
            if v is None:
                return "absent"
            if v[0] == "multi":
                return "multi"
            s = v[1]
            if dur:
                return "whole-day" if s[2] == 0 and not (len(s) > 3 and s[3]) else "sub-day"
            if s[0] == "date":
                return "date"
            return "floating" if s[7] is None else "aware"
        return f"{c(self.S)}/{c(self.E)}/{c(self.D, True)}"

    def forbidden(self):
        """Which of the statement's forbidden conditions hold (single-valued slots only)."""
        out = []
        S = self.S[1] if self.S and self.S[0] == "one" else None
        E = self.E[1] if self.E and self.E[0] == "one" else None
        D = self.D[1] if self.D and self.D[0] == "one" else None
        if self.cls == "Journal":
            return out
        if E is not None and D is not None:
            out.append("both")
        if S is not None and E is not None and (S[0] == "date") != (E[0] == "date"):
            out.append("mismatch")
        if S is not None and S[0] == "date" and D is not None and (D[2] != 0 or (len(D) > 3 and D[3] != 0)):
            out.append("subday")
        return out

    # ---- expected getter outcomes ---------------------------------------------
    def expected(self):
        """getter -> list of allowed outcomes; an outcome is ["val", described] or ["exc", name];
        None = only the exception type is constrained."""
        INV, INC = ["exc", "InvalidCalendar"], ["exc", "IncompleteComponent"]
        exp = {}
        one = lambda v: v is not None and v[0] == "one"
        # upper-case accessors
        for name, v in (("DTSTART", self.S), ("END", self.E), ("DURATION", self.D)):
            if self.cls == "Journal" and name != "DTSTART":
                continue
            if v is None:
                exp[name] = [["val", None]]
            elif v[0] == "multi":
                exp[name] = None
            else:
                exp[name] = [["val", describe(to_py(v[1]))]]
        if self.cls == "Journal":
            if self.S is None:
                exp["start"] = [INC]
                exp["end"] = [INC]
            elif self.S[0] == "multi":
                exp["start"] = exp["end"] = None
            else:
                s = describe(to_py(self.S[1]))
                exp["start"] = [["val", s]]
                exp["end"] = [["val", s]]
            exp["duration"] = [["val", describe(timedelta(0))]]
            return exp
        if self.exotic():
            exp["start"] = exp["end"] = exp["duration"] = None
            return exp
        S = to_py(self.S[1]) if one(self.S) else None
        E = to_py(self.E[1]) if one(self.E) else None
        D = to_py(self.D[1]) if one(self.D) else None
        start_normal = ["val", describe(S)] if S is not None else INC
        if self.forbidden():
            exp["start"] = [INV, start_normal]
            exp["end"] = [INV]
            exp["duration"] = [INV]
            return exp
        exp["start"] = [start_normal]
        if S is None:
            exp["end"] = [["val", describe(E)], INC] if (E is not None and D is None) else [INC]
            exp["duration"] = [INC]
            return exp
        if E is not None:
            end = E
        elif D is not None:
            end = S + D
        elif isinstance(S, datetime):
            end = S
        else:
            end = S + DAY
        exp["end"] = [["val", describe(end)]]
        exp["duration"] = [["val", describe(end - S)]]
        return exp


# ---------------------------------------------------------------------------
# generation

def _val(rng, aware, kind=None):
    kind = kind or rng.choice(["date", "dt", "dt"])
    v = rng.choice(DATES) if kind == "date" else rng.choice(AWARE if aware else FLOATING)
    if rng.random() < 0.12:
        # the same value as an instance of a date/datetime subclass; a "dt" spec needs its tz slot first
        v = list(v) + ["sub"]
    return v


def generate(rng, cfg):
    from icalsim.rng import pick_weighted
    cls = rng.choice(CLASSES)
    # the provider is process-wide state that the component never sees - it must not matter which one is selected
    provider = rng.choice(["zoneinfo", "zoneinfo", "pytz"])
    aware = rng.random() < 0.6
    exotic_ops = rng.random() < 0.5
    props = {}
    how = rng.choice(["api", "api", "parse"])
    if how == "parse":
        if rng.random() < 0.7:
            props["DTSTART"] = _val(rng, aware)
        if cls != "Journal":
            if rng.random() < 0.5:
                props["END"] = _val(rng, aware)
            if rng.random() < 0.4:
                props["DURATION"] = rng.choice(DURS)
    extra = []
    if how == "parse" and exotic_ops and rng.random() < 0.3:
        # a text that repeats one of the three properties (reachable only by parsing or add())
        for _ in range(rng.randint(1, 2)):
            name = rng.choice(["DTSTART"] if cls == "Journal" else ["DTSTART", "END", "DURATION"])
            extra.append([name, rng.choice(DURS) if name == "DURATION" else _val(rng, aware)])
    bad = []
    if how == "parse" and cls == "Event" and rng.random() < 0.2:
        for name in rng.sample(["DTSTART", "END", "DURATION"], rng.randint(1, 2)):
            if name not in props and not any(x[0] == name for x in extra):
                bad.append([name, rng.choice(["20240506T1100", "1D", "garbage", "2024-05-06", ""])])
    # properties may carry parameters of their own (X-REASON=planned): they say nothing about the value
    xp = [n for n in props if rng.random() < 0.25] if how == "parse" else []
    trace = [[0, "new", {"cls": cls, "how": how, "props": props, "extra": extra, "bad": bad, "xp": xp}]]
    m = Model(cls)
    m.provider = provider
    for k, v in props.items():
        m.put(k, ["one", v])
    for k, v in extra:
        m.add(k, v)
    weights = [("set", 12), ("del", 3), ("bad_set", 2), ("roundtrip", 1)]
    if exotic_ops:
        weights += [("add", 3), ("setitem", 2), ("add_foreign", 1.5)]
    nops = rng.randint(2, cfg.get("max_ops", 12))
    attrs = ["start", "end", "DTSTART", "END", "DURATION"]
    names = ["DTSTART", "END", "DURATION"]
    for _ in range(nops):
        op = pick_weighted(rng, weights)
        if op == "set":
            attr = rng.choice(attrs)
            if rng.random() < 0.12:
                v = ["n"]
            elif attr == "DURATION":
                v = rng.choice(DURS_API)
            else:
                v = _val(rng, aware)
            step = [0, "set", {"attr": attr, "v": v}]
            m.set(attr, v)
        elif op == "del":
            present = [n for n in names if m.get(n) is not None]
            name = rng.choice(present) if present and rng.random() < 0.8 else rng.choice(names)
            step = [0, "del", {"attr": name}]
            m.delete(name)
        elif op == "bad_set":
            attr = rng.choice(attrs)
            if attr == "DURATION":
                v = rng.choice(BAD + [DATES[0], FLOATING[0]])
            else:
                v = rng.choice(BAD + [DURS[0]])
            step = [0, "bad_set", {"attr": attr, "v": v}]
        elif op == "roundtrip":
            step = [0, "roundtrip", {}]
            m.roundtrip()
        elif op == "add_foreign":
            # the end property of the *other* component class (a DUE in a VEVENT, e.g. after Event(todo)): no accessor
            # looks at it, and it must not get in the way of the three that count
            step = [0, "add_foreign", {"v": _val(rng, aware)}]
        elif op == "add":
            name = rng.choice(names)
            v = rng.choice(DURS_API) if name == "DURATION" else _val(rng, aware)
            step = [0, "add", {"name": name, "v": v, "xp": rng.random() < 0.25}]
            m.add(name, v)
        else:
            name = rng.choice(names)
            v = rng.choice(DURS_API) if name == "DURATION" else _val(rng, aware)
            step = [0, "setitem", {"name": name, "v": v}]
            m.setitem(name, v)
        trace.append(step)
    return {"cfg": {"provider": provider}, "trace": trace}


def _vclass(v):
    if v is None:
        return ""
    if v[0] == "dt":
        return "dt:" + ("floating" if v[7] is None else v[7][0]) + ("+sub" if v[-1] == "sub" else "")
    if v[0] == "td":
        return "td:" + ("day" if v[2] == 0 else "sub") + ("+us" if len(v) > 3 and v[3] else "")
    return v[0]


def abstract_sig(run):
    parts = []
    for _, op, a in run["trace"]:
        if op == "new":
            parts.append("new:%s:%s:%s" % (a["cls"], a["how"], ",".join(f"{k}={_vclass(v)}" for k, v in sorted(a["props"].items()))))
        else:
            parts.append("%s:%s:%s" % (op, a.get("attr", a.get("name", "")), _vclass(a.get("v"))))
    return "|".join(parts)


# ---------------------------------------------------------------------------
# execution

def _text_for(cls, props, extra=(), bad=(), xp=()):
    kind = {"Event": "VEVENT", "Todo": "VTODO", "Journal": "VJOURNAL"}[cls]
    lines = [f"BEGIN:{kind}"]
    # lines of the three properties that cannot be decoded: a VEVENT drops them (and records that it did)
    lines += [f"{endname(cls) if n == 'END' else n}:{text}" for n, text in bad]
    for name, v in list(props.items()) + [tuple(x) for x in extra]:
        pname = endname(cls) if name == "END" else name
        line = _prop_line(pname, v)
        if name in xp:
            line = line.replace(pname, pname + ";X-REASON=planned", 1)
        lines.append(line)
    lines.append(f"END:{kind}")
    return "\r\n".join(lines) + "\r\n"


def _prop_line(name, v):
    if v[0] == "date":
        return f"{name};VALUE=DATE:{v[1]:04}{v[2]:02}{v[3]:02}"
    if v[0] == "dt":
        body = f"{v[1]:04}{v[2]:02}{v[3]:02}T{v[4]:02}{v[5]:02}{v[6]:02}"
        tz = v[7]
        if tz is None:
            return f"{name}:{body}"
        if tz[0] == "utc":
            return f"{name}:{body}Z"
        return f"{name};TZID={tz[1]}:{body}"
    if v[0] == "td":
        td = to_py(v)
        sign = "-" if td < timedelta(0) else ""
        td = abs(td)
        out = f"{sign}P"
        if td.days or not td.seconds:
            out += f"{td.days}D"
        if td.seconds:
            out += f"T{td.seconds // 3600}H{td.seconds % 3600 // 60}M{td.seconds % 60}S"
        return f"{name}:{out}"
    raise AssertionError(v)


def _outcome(fn):
    try:
        return ["val", describe(fn())]
    except Exception as e:
        return ["exc", type(e).__name__]


def _stored(comp, pname):
    """Library-free description of what is stored under pname."""
    if pname not in comp.keys():
        return None
    raw = dict.__getitem__(comp, pname)
    if isinstance(raw, list):
        return ["multi"] + [_stored_value(x) for x in raw]
    return ["one", _stored_value(raw)]


def _stored_value(x):
    for attr in ("dt", "td"):
        v = x.__dict__.get(attr) if hasattr(x, "__dict__") else None
        if v is not None:
            return describe(v)
    return describe(x)


def _model_stored(v):
    if v is None:
        return None
    if v[0] == "one":
        return ["one", describe(to_py(v[1]))]
    return ["multi"] + [describe(to_py(s)) for s in v[1]]


def execute(run, res):
    import icalendar.cal as C
    comp = None
    m = None
    cls = None
    for stepno, (_, op, a) in enumerate(run["trace"]):
        res.steps += 1
        if op == "new":
            cls = a["cls"]
            klass = getattr(C, cls)
            m = Model(cls)
            m.provider = run.get("cfg", {}).get("provider", "zoneinfo")
            if m.provider == "pytz":
                res.probe("pytz_provider_selected")
            if a["how"] == "parse":
                text = _text_for(cls, a["props"], a.get("extra", ()), a.get("bad", ()), a.get("xp", ()))
                if a.get("xp"):
                    res.probe("property_with_own_parameter")
                if a.get("bad"):
                    res.probe("parsed_with_dropped_lines")
                try:
                    comp = klass.from_ical(text)
                except Exception as e:
                    res.violate(f"C16/new/parse-raised:{type(e).__name__}", stepno, f"{e!r} for {text!r}")
                    return
                for k, v in a["props"].items():
                    m.put(k, ["one", v])
                for k, v in a.get("extra", ()):
                    m.add(k, v)
                m.roundtrip()
                m.pure = False
                if a["props"]:
                    res.probe("parsed_state")
            else:
                comp = klass()
            res.ops["new:" + a["how"]] += 1
            _check(res, stepno, op, comp, m)
            continue
        if comp is None:
            res.skipped += 1
            continue
        res.ops[op] += 1
        pre = m.abstract()
        res.states.add(f"cov:{op}:{a.get('attr', a.get('name', ''))}:{pre}")
        EN = endname(cls)
        real = lambda n: EN if n == "END" else n
        if op == "set":
            attr = a["attr"]
            value = to_py(a["v"])
            before = m.copy_state()
            m.set(attr, a["v"])
            try:
                if cls == "Journal" and attr in ("END", "DURATION"):
                    # Journal has neither property; only the shared start/end setter applies
                    m.S, m.E, m.D = before
                    res.ops["set:skipped-journal"] += 1
                    continue
                setattr(comp, real(attr), value)
            except Exception as e:
                res.violate(f"C16/set:{attr}/raised:{type(e).__name__}", stepno, f"{e!r} value={a['v']!r}")
                m.S, m.E, m.D = before
            else:
                if before != m.copy_state() and a["v"][0] != "n" and cls != "Journal":
                    name = {"start": "DTSTART", "end": "END"}.get(attr, attr)
                    if (name == "END" and before[2] is not None) or (name == "DURATION" and before[1] is not None):
                        res.probe("sibling_removed")
        elif op == "del":
            if cls == "Journal" and a["attr"] != "DTSTART":
                continue
            m.delete(a["attr"])
            try:
                delattr(comp, real(a["attr"]))
            except Exception as e:
                res.violate(f"C16/del:{a['attr']}/raised:{type(e).__name__}", stepno, repr(e))
        elif op == "bad_set":
            attr = a["attr"]
            if cls == "Journal" and attr in ("END", "DURATION"):
                continue
            value = to_py(a["v"])
            snap = [_stored(comp, n) for n in ("DTSTART", EN, "DURATION")]
            try:
                setattr(comp, real(attr), value)
            except TypeError:
                res.probe("rejected_call_atomic")
            except Exception as e:
                res.violate(f"C16/bad_set:{attr}/raised:{type(e).__name__}", stepno, f"{e!r} value={a['v']!r}")
            else:
                res.violate(f"C16/bad_set:{attr}/accepted", stepno, f"value {a['v']!r} was not rejected")
            if snap != [_stored(comp, n) for n in ("DTSTART", EN, "DURATION")]:
                res.violate(f"C16/bad_set:{attr}/not-atomic", stepno, "state changed by a rejected call")
        elif op == "add_foreign":
            if cls == "Journal":
                continue
            comp.add("DUE" if cls == "Event" else "DTEND", to_py(a["v"]))
            res.probe("end_property_of_the_other_class_present")
        elif op == "add":
            if cls == "Journal" and a["name"] != "DTSTART":
                continue
            m.add(a["name"], a["v"])
            if a.get("xp"):
                comp.add(real(a["name"]), to_py(a["v"]), parameters={"X-REASON": "planned"})
                res.probe("property_with_own_parameter")
            else:
                comp.add(real(a["name"]), to_py(a["v"]))
        elif op == "setitem":
            if cls == "Journal" and a["name"] != "DTSTART":
                continue
            from icalendar.prop import vDDDTypes
            m.setitem(a["name"], a["v"])
            comp[real(a["name"])] = vDDDTypes(to_py(a["v"]))
        elif op == "roundtrip":
            try:
                comp = type(comp).from_ical(comp.to_ical())
            except Exception as e:
                res.violate(f"C16/roundtrip/raised:{type(e).__name__}", stepno, repr(e))
                return
            m.roundtrip()
            m.pure = False
            res.probe("parsed_state")
        _check(res, stepno, op, comp, m)


def _check(res, stepno, op, comp, m):
    cls = m.cls
    EN = endname(cls)
    res.states.add(m.abstract())
    # (iii) stored state equals the model's
    for name in ("DTSTART", "END", "DURATION"):
        if cls == "Journal" and name != "DTSTART":
            continue
        got = _stored(comp, EN if name == "END" else name)
        want = _model_stored(m.get(name))
        if got != want:
            res.violate(f"C16/{op}/stored:{name}", stepno, f"stored {got!r}, model {want!r}")
            return
    # (i) exclusivity after setter/deleter-only histories
    if cls != "Journal" and m.pure and EN in comp and "DURATION" in comp:
        res.violate(f"C16/{op}/exclusive", stepno, f"both {EN} and DURATION present after setters only")
    forb = m.forbidden()
    for f in forb:
        res.probe("forbidden_" + f)
    if m.exotic():
        res.probe("multi_valued")
    exp = m.expected()
    getters = {"DTSTART": lambda: comp.DTSTART, "start": lambda: comp.start, "end": lambda: comp.end,
               "duration": lambda: comp.duration}
    if cls != "Journal":
        getters["END"] = lambda: getattr(comp, EN)
        getters["DURATION"] = lambda: comp.DURATION
    obs = {}
    for g in ("DTSTART", "END", "DURATION", "start", "end", "duration"):
        if g not in getters:
            continue
        got = _outcome(getters[g])
        obs[g] = got
        allowed = exp.get(g)
        if got[0] == "exc" and got[1] not in ("InvalidCalendar", "IncompleteComponent"):
            res.violate(f"C16/get:{g}/raised:{got[1]}", stepno, f"state {m.abstract()} forbidden={forb}")
            continue
        if allowed is None:
            continue
        if got not in allowed:
            kind = "forbidden-state" if forb else ("missing-start" if m.S is None else "value")
            res.violate(f"C16/get:{g}/{kind}", stepno,
                        f"got {got!r}, allowed {allowed!r}; state {m.abstract()} forbidden={forb} "
                        f"S={m.S} E={m.E} D={m.D}")
    # (ii) the algebraic identities, checked on what the getters themselves returned
    if cls != "Journal" and all(obs.get(g, ["exc"])[0] == "val" for g in ("start", "end", "duration")):
        try:
            s, e, d = comp.start, comp.end, comp.duration
            if e - s != d:
                res.violate("C16/identity/end-start", stepno, f"{e!r} - {s!r} != {d!r}")
            D = comp.DURATION
            if D is not None and e != s + D:
                res.violate("C16/identity/start+DURATION", stepno, f"{e!r} != {s!r} + {D!r}")
            if D is not None:
                res.probe("end_from_duration")
                if isinstance(s, datetime) and s.tzinfo is not None and s.utcoffset() != e.utcoffset():
                    res.probe("duration_crosses_dst")
            if D is None and getattr(comp, EN) is None:
                if isinstance(s, datetime):
                    res.probe("default_end_datetime")
                    if e != s:
                        res.violate("C16/identity/default-end-datetime", stepno, f"{e!r} != {s!r}")
                else:
                    res.probe("default_end_date")
                    if e != s + DAY:
                        res.violate("C16/identity/default-end-date", stepno, f"{e!r} != {s!r} + 1 day")
        except Exception as ex:
            res.violate(f"C16/identity/raised:{type(ex).__name__}", stepno, repr(ex))
    if m.S is None and not forb and not m.exotic():
        res.probe("missing_start")
    res.observe(stepno, op, obs)


def simplify_step(step):
    c, op, a = step
    if op == "new" and a.get("extra"):
        yield [c, op, dict(a, extra=a["extra"][:-1])]
    if op == "new" and a.get("props"):
        for k in list(a["props"]):
            b = dict(a)
            b["props"] = {x: y for x, y in a["props"].items() if x != k}
            yield [c, op, b]
    if op == "new" and a["how"] == "parse" and not a["props"]:
        yield [c, op, dict(a, how="api")]
    v = a.get("v")
    if v and v[-1] == "sub":
        yield [c, op, dict(a, v=v[:-1])]
    if v and v[0] == "dt" and v[7] and v[7][0] != "utc":
        yield [c, op, dict(a, v=v[:7] + [["utc"]])]
