"""C10 - serialisation is deterministic, pure and insertion-order independent.

What the simulator owns (DESIGN.md section 4, C10): the interpreter hash seed (lock-step
incarnations), the *history* of API calls that built the tree and its permutations, and
serialisation as an observer that is injected at arbitrary points of the history, with other
clients' parses as process noise in between.
"""
import random

from icalsim import world
from icalsim.rng import digest
from icalsim.snapshot import balanced, snap_component, wire_tree
from icalsim.values import to_py

ID = "C10"
RULE = ("each run = one build history H of 6..40 API calls (component creation, add with 0-4 parameters, item "
        "assignment of raw value objects as in the README, DTSTART/DTEND/DURATION/start/end setters, add_component, "
        "add_missing_timezones, from_ical of a text as a subtree) building a tree of depth <= 4 over VCALENDAR/VEVENT/"
        "VTODO/VJOURNAL/VFREEBUSY/VTIMEZONE/STANDARD/DAYLIGHT/VALARM/X- components; executed (A) with 0-5 to_ical "
        "observers spliced in at seeded points and other clients' parses in between, (B) without observers, (C) as "
        "m<=6 permutations that reorder only insertions of distinct property / parameter / rule-part names inside "
        "barrier-free segments; all of it in lock-step under several interpreter hash seeds; non-trivial = reached a "
        "probe; distinct = distinct abstract histories (op kind, component kind, property name, value kind per step)")
STATE_MEASURE = "distinct (tree-shape signature, value-kind set) pairs built"
STATE_SPACE = None
COV_MEASURE = "op kind x value kind pairs"
HARNESS_COMPONENTS = ["build-history generator", "permutation scheduler", "observer injection",
                      "noise clients (parses)", "ordered-multimap reference model", "wire scanner",
                      "interpreter hash seed (lock-step)"]
ASSUMPTIONS = [
    "permutations move an insertion only past insertions of *different* (caseless) names of the same component, "
    "never across a property setter with sibling side effects, add_missing_timezones or from_ical (barriers), so "
    "every permutation builds the same abstract tree by construction",
    "'observably unchanged' = an attribute-level snapshot taken without calling library code is identical before "
    "and after to_ical",
]

HISTORY_CHECK = True   # last runs of every chunk are re-observed alone in a fresh interpreter

TIERS = {
    "quick":    {"runs": 1920,  "chunk": 60,  "hash_seeds": [0, 1, 2, 3], "max_steps": 40, "perms": 4, "timeout": 900},
    "thorough": {"history_check_cap": 200, "runs": 24000, "chunk": 300, "max_wall": 2400, "hash_seeds": [0, 1, 2, 3, 5, 8, 13, 21], "max_steps": 40, "perms": 6,
                 "timeout": 3400},
    "selftest": {"runs": 160,   "chunk": 20,  "hash_seeds": [0, 3], "max_steps": 40, "perms": 3, "timeout": 300},
}
REQUIRED_PROBES = {"quick": ["observer_before_last_mutation", "raw_value_object_with_params", "repeated_name",
                             "caseless_duplicate_name", "permutation_moved_something", "amz_in_history",
                             "amz_added_two_or_more", "subtree_from_ical", "zoned_dateutil", "zoned_pytz",
                             "zoned_zoneinfo", "list_valued_parameter", "setter_barrier", "noise_parse", "noise_serialise",
                             "mixed_zone_list", "constructed_from_mapping", "tzid_parameter_popped", "parsed_value_params_mutated", "serialisation_failed_half_way",
                             "params_mutated_in_place", "property_deleted", "value_payload_mutated_in_place"]}
REQUIRED_PROBES["thorough"] = REQUIRED_PROBES["quick"]

KINDS = ["VEVENT", "VTODO", "VJOURNAL", "VFREEBUSY", "VTIMEZONE", "VALARM", "X-COMP"]
CHILD_KINDS = {"VCALENDAR": ["VEVENT", "VEVENT", "VTODO", "VJOURNAL", "VFREEBUSY", "VTIMEZONE", "X-COMP"],
               "VEVENT": ["VALARM", "X-COMP"], "VTODO": ["VALARM"], "VTIMEZONE": ["STANDARD", "DAYLIGHT"],
               "X-COMP": ["VEVENT", "X-COMP", "VALARM"], "VJOURNAL": [], "VFREEBUSY": [], "VALARM": [],
               "STANDARD": [], "DAYLIGHT": []}

ZONES = [["zi", "Europe/Berlin"], ["zi", "America/New_York"], ["pytz", "Europe/Vienna"], ["pytz", "Asia/Tokyo"],
         ["du", "Europe/London"], ["du", "Australia/Sydney"], ["du", "Pacific/Kwajalein"], ["du", "Asia/Singapore"],
         ["du", "America/Jamaica"], ["zi", "Asia/Kolkata"], ["zi", "Pacific/Fiji"],
         ["pytz", "America/Sao_Paulo"],
         # zones no table knows: the TZID written is the name the zone gives itself for that very date-time
         ["fixed", 345, "KST"], ["fixed", 345, "KDT"], ["fixed", 90], ["fixed", -210, "X-NT"], ["simdst"], ["simdst"]]
# strings that occur both as TEXT and as URI / CAL-ADDRESS values (the value classes are all str subclasses that
# compare equal for equal text but render differently)
COLLIDE = ["http://example.com/a,b;c", "mailto:x,y;z@example.com", "with, comma; semi", "back\\slash,and;semi"]
TEXTS = ["plain", "with, comma; semi", "Ünïcödé 日本語 text", "line\nbreak", "x" * 90, "back\\slash", "",
         "ends with space ", "Größe " * 20]
FROM_ICAL_TEXTS = [
    "BEGIN:VEVENT\r\nSUMMARY:parsed\r\nDTSTART;TZID=Europe/Berlin:20200310T100000\r\nUID:p1\r\nEND:VEVENT\r\n",
    "BEGIN:VEVENT\r\nuid:p2\r\ndtstart:20200310T100000Z\r\nX-b:1\r\nX-A:2\r\nCOMMENT:one\r\nCOMMENT:two\r\n"
    "BEGIN:VALARM\r\nTRIGGER:-PT15M\r\nACTION:DISPLAY\r\nEND:VALARM\r\nEND:VEVENT\r\n",
    "BEGIN:VTODO\r\nDUE;VALUE=DATE:20200312\r\nATTENDEE;CN=\"A, B\";ROLE=CHAIR:mailto:a@example.com\r\nEND:VTODO\r\n",
    "BEGIN:VEVENT\r\nUID:p5\r\nDTSTART;TZID=UTC:20200310T100000Z\r\nDTEND;TZID=UTC:20200310T110000\r\n"
    "RDATE;TZID=UTC:20200311T100000Z\r\nEND:VEVENT\r\n",
    "BEGIN:X-THING\r\nX-PROP;X-PAR=1;A-PAR=2:value\r\nBEGIN:X-INNER\r\nEND:X-INNER\r\nEND:X-THING\r\n",
    "BEGIN:VTIMEZONE\r\nTZID:Sim/Noise\r\nBEGIN:STANDARD\r\nDTSTART:19700101T000000\r\nTZOFFSETFROM:+0100\r\n"
    "TZOFFSETTO:+0100\r\nEND:STANDARD\r\nEND:VTIMEZONE\r\n",
]
NOISE_TEXTS = [
    "BEGIN:VCALENDAR\r\nBEGIN:VTIMEZONE\r\nTZID:Sim/Noise\r\nBEGIN:STANDARD\r\nDTSTART:19700101T000000\r\n"
    "TZOFFSETFROM:+0500\r\nTZOFFSETTO:+0500\r\nEND:STANDARD\r\nEND:VTIMEZONE\r\nBEGIN:VEVENT\r\n"
    "DTSTART;TZID=Sim/Noise:20200101T000000\r\nEND:VEVENT\r\nEND:VCALENDAR\r\n",
    "BEGIN:VCALENDAR\r\nBEGIN:VEVENT\r\nDTSTART;TZID=Europe/Berlin:20200101T000000\r\nRDATE:20200102T000000,"
    "20200103T000000\r\nEND:VEVENT\r\nEND:VCALENDAR\r\n",
    "BEGIN:VCALENDAR\r\nBEGIN:VEVENT\r\nDTSTART:broken\r\nEND:VEVENT\r\nEND:VCALENDAR\r\n",
]
PARAM_MENU = [["language", ["s", "de"]], ["ALTREP", ["s", "http://example.com/a,b"]], ["X-p1", ["s", "v1"]],
              ["x-P2", ["s", "semi;colon"]], ["Cn", ["s", "Max Rasmussen"]], ["ROLE", ["s", "REQ-PARTICIPANT"]],
              ["member", ["list", [["s", "mailto:a@x.org"], ["s", "mailto:b@x.org"]]]],
              # a list may name an entry twice: all of them are written, in the order given
              ["DELEGATED-TO", ["list", [["s", "mailto:c@x.org"], ["s", "mailto:a@x.org"], ["s", "mailto:c@x.org"],
                                         ["s", "mailto:b@x.org"], ["s", "mailto:d@x.org"]]]],
              ["x-twice", ["list", [["s", "k"], ["s", "j"], ["s", "k"]]]],
              # what files written by other producers carry: an explicit TZID=UTC next to a UTC value
              ["TZID", ["s", "UTC"]], ["tzid", ["s", "UTC"]],
              # add(..., parameters={name: None}) means "no such parameter" (documented): the others stay as given
              ["X-GONE", ["n"]], ["x-gone-2", ["n"]],
              ["A-FIRST", ["s", "1"]], ["z-last", ["s", "2"]], ["RELATED", ["s", "END"]],
              ["X-SEAT-1", ["s", "a"]], ["X-SEAT-01", ["s", "b"]], ["X-SEAT-10", ["s", "c"]], ["x-seat-2", ["s", "d"]]]


# ---------------------------------------------------------------------------
# value menu: name -> (value kind, generator)

# the same instant AND the same wall clock in UTC and in zones that are at +00:00 in winter: equal date-times by
# every comparison Python offers, different bytes on the wire (Z / TZID=...)
TWIN_WALLS = [[2020, 1, 15, 12, 0, 0], [2021, 12, 1, 8, 30, 0]]
TWIN_ZONES = [["utc"], ["utc"], ["zi", "Europe/London"], ["du", "Europe/London"], ["pytz", "Europe/London"],
              ["zi", "Africa/Abidjan"], ["fixed", 0, "GMT"], None]


def _dt(rng, zone="any"):
    if zone == "any" and rng.random() < 0.12:
        return ["dt", *rng.choice(TWIN_WALLS), rng.choice(TWIN_ZONES)]
    w = [rng.choice([1999, 2020, 2021, 2030]), rng.randint(1, 12), rng.randint(1, 28), rng.randint(0, 23),
         rng.choice([0, 30, 59]), rng.choice([0, 0, 59])]
    z = rng.choice([None, ["utc"], "z", "z"]) if zone == "any" else zone
    if z == "z":
        z = rng.choice(ZONES)
    return ["dt", *w, z]


def _date(rng):
    return ["date", rng.choice([1999, 2020, 2024]), rng.randint(1, 12), rng.randint(1, 28)]


def _td(rng):
    return rng.choice([["td", 1, 0], ["td", 0, 5400], ["td", -1, 82800], ["td", 7, 0], ["td", 0, 0], ["td", 1, 3661]])


def gen_value(rng, name, marker):
    """(value kind, value spec) for property `name`."""
    u = name.upper()
    if u in ("DTSTART", "DTEND", "DUE", "RECURRENCE-ID"):
        if rng.random() < 0.25:
            return "date", _date(rng)
        v = _dt(rng)
        return "dt:" + _zk(v), v
    if u in ("DTSTAMP", "CREATED", "LAST-MODIFIED"):
        v = _dt(rng)
        return "utcprop:" + _zk(v), v
    if u in ("RDATE", "EXDATE"):
        z = rng.choice([None, ["utc"], rng.choice(ZONES)])
        n = rng.randint(1, 3)
        if rng.random() < 0.2:
            return "datelist", ["list", [_date(rng) for _ in range(n)]]
        if rng.random() < 0.3:
            # entries from several zones in one list (the TZID written is the library's choice, but it must be
            # the same choice in every process)
            n = rng.randint(2, 4)
            return "dtlist:mixed", ["list", [_dt(rng, rng.choice(ZONES)) for _ in range(n)]]
        return "dtlist:" + _zk(["dt", 0, 0, 0, 0, 0, 0, z]), ["list", [_dt(rng, z) for _ in range(n)]]
    if u == "CATEGORIES":
        return "categories", ["list", [["s", rng.choice(["A", "b,c", "Ünï", "d;e"])] for _ in range(rng.randint(1, 3))]]
    if u == "RRULE":
        parts = [["FREQ", [rng.choice(["YEARLY", "MONTHLY", "WEEKLY", "DAILY"])]]]
        menu = [["COUNT", [rng.randint(1, 20)]], ["INTERVAL", [rng.randint(1, 4)]], ["BYDAY", ["MO", "-1SU"]],
                ["BYMONTH", [rng.randint(1, 12)]], ["WKST", ["SU"]], ["BYMONTHDAY", [1, -1]], ["BYSETPOS", [1]],
                ["byhour", [3]], ["X-CUSTOM", ["1"]]]
        for p in rng.sample(menu, rng.randint(0, 4)):
            parts.append(p)
        rng.shuffle(parts)
        # how a caller writes the rule: lists everywhere, bare values for single items (the common way:
        # {'freq': 'weekly', 'count': 3}), or a plain dict handed to add()
        return "recur", ["recur_pairs", parts, rng.choice(["lists", "scalars", "dict-scalars"])]
    if u in ("DURATION",):
        return "td", _td(rng)
    if u == "TRIGGER":
        if rng.random() < 0.3:
            return "dt:utc", _dt(rng, ["utc"])
        return "td", _td(rng)
    if u in ("SEQUENCE", "PRIORITY", "REPEAT", "PERCENT-COMPLETE"):
        return "int", ["i", rng.randint(0, 9)]
    if u == "GEO":
        return "geo", ["geo", rng.choice([37.386013, -12.5, 0.0]), rng.choice([-122.082932, 179.99, 1.0])]
    if u in ("URL", "ATTACH", "TZURL"):
        if rng.random() < 0.3:
            return "uri", ["s", rng.choice(COLLIDE)]
        return "uri", ["s", "http://example.com/" + marker + rng.choice(["", "?a=1;b=2", "#x,y"])]
    if u in ("ATTENDEE", "ORGANIZER"):
        if rng.random() < 0.2:
            return "caladdress", ["s", rng.choice(COLLIDE)]
        return "caladdress", ["s", f"mailto:{marker}@example.com"]
    if u == "FREEBUSY":
        z = rng.choice([["utc"], ["utc"], rng.choice(ZONES[:2])])
        s = _dt(rng, z)
        if rng.random() < 0.5:
            return "period", ["period", s, ["td", 0, 3600]]
        e = s[:4] + [min(s[4] + 1, 23) if s[4] < 23 else 23, 59, 59, z]
        return "period", ["period", s, e]
    if u in ("TZOFFSETFROM", "TZOFFSETTO"):
        return "utcoffset", ["td", 0, rng.choice([3600, 7200, 19800, 0])] if rng.random() < 0.7 else ["td", -1, 68400]
    if u == "X-BIN":
        return "rawonly:vBinary", ["s", "binary " + marker]
    if u == "X-BOOL":
        return "rawonly:vBoolean", ["B", rng.random() < 0.5]
    if u == "X-FLOAT":
        return "rawonly:vFloat", ["f", rng.choice([1.5, -0.25, 1e-7, 100000.0])]
    if u == "X-TIME":
        return "rawonly:vTime", ["time", rng.randint(0, 23), rng.randint(0, 59), rng.randint(0, 59)]
    if u in ("COMMENT", "X-MULTI", "x-multi", "CONTACT"):
        return "text", ["s", marker]
    if rng.random() < 0.25:
        return "text", ["s", rng.choice(COLLIDE)]
    return "text", ["s", rng.choice(TEXTS) if rng.random() < 0.7 else marker]


def _zk(v):
    z = v[7]
    return "floating" if z is None else z[0]


PROP_MENU = {
    "VCALENDAR": ["VERSION", "PRODID", "CALSCALE", "METHOD", "X-WR-CALNAME", "x-custom", "COMMENT"],
    "VEVENT": ["SUMMARY", "DTSTART", "DTEND", "DURATION", "DTSTAMP", "UID", "RECURRENCE-ID", "SEQUENCE", "RRULE",
               "RDATE", "EXDATE", "COMMENT", "ATTENDEE", "ORGANIZER", "CATEGORIES", "GEO", "URL", "LOCATION",
               "DESCRIPTION", "CREATED", "X-MULTI", "x-multi", "X-Foo", "x-foo", "a-first", "Zz-last", "ATTACH",
               "X-BIN", "X-BOOL", "X-FLOAT", "X-TIME", "X-ROOM-7", "X-ROOM-07", "X-ROOM-10", "X-ITEM-2", "x-item-002",
               "X-2", "X-10"],
    "VTODO": ["SUMMARY", "DTSTART", "DUE", "DURATION", "DTSTAMP", "UID", "RRULE", "RDATE", "COMMENT", "PRIORITY",
              "PERCENT-COMPLETE", "ATTENDEE", "X-Foo", "CATEGORIES"],
    "VJOURNAL": ["SUMMARY", "DTSTART", "DESCRIPTION", "COMMENT", "UID", "RDATE", "EXDATE", "X-Foo"],
    "VFREEBUSY": ["DTSTART", "DTEND", "FREEBUSY", "UID", "ORGANIZER", "COMMENT", "URL"],
    "VTIMEZONE": ["TZID", "TZURL", "LAST-MODIFIED", "X-LIC-LOCATION", "COMMENT"],
    "STANDARD": ["DTSTART", "TZOFFSETFROM", "TZOFFSETTO", "TZNAME", "RRULE", "RDATE", "COMMENT"],
    "DAYLIGHT": ["DTSTART", "TZOFFSETFROM", "TZOFFSETTO", "TZNAME", "RRULE", "COMMENT"],
    "VALARM": ["TRIGGER", "ACTION", "REPEAT", "DURATION", "DESCRIPTION", "ATTENDEE", "SUMMARY", "x-alarm"],
    "X-COMP": ["SUMMARY", "DTSTART", "X-Foo", "x-foo", "COMMENT", "RDATE", "Zz-last", "a-first"],
}
# names a component may be constructed with (text-valued everywhere); case variants of one name never meet
CTOR_NAMES = ["summary", "UID", "Location", "description", "COMMENT", "contact", "Status", "CLASS", "X-Ctor", "x-born",
              "Summary", "uid", "LOCATION", "a-first", "Zz-last", "X-ROOM-7", "x-room-07"]
MULTI = {"COMMENT", "ATTENDEE", "X-MULTI", "RDATE", "EXDATE", "FREEBUSY", "ATTACH", "CONTACT", "RRULE", "CATEGORIES"}
RAW_CLASSES = {"dt": "vDatetime", "date": "vDate", "td": "vDuration", "text": "vText", "int": "vInt",
               "uri": "vUri", "caladdress": "vCalAddress", "period": "vPeriod"}


# ---------------------------------------------------------------------------
# generation

def generate(rng, cfg):
    provider = rng.choice(["zoneinfo", "zoneinfo", "pytz"])
    trace = [[0, "new_comp", {"id": 0, "kind": "VCALENDAR"}]]
    comps = {0: "VCALENDAR"}
    depth = {0: 0}
    attached = {0}
    names_used = {0: {}}
    nid = 1
    nsteps = rng.randint(6, cfg.get("max_steps", 40))
    marker = 0
    zoned = set()        # (component, NAME) of date-time values that carry a zone
    parsed_texts = []
    used_amz = False
    swarm = {"setters": rng.random() < 0.6, "raw": rng.random() < 0.6, "amz": rng.random() < 0.5,
             "from_ical": rng.random() < 0.4, "noise": rng.random() < 0.5, "setitem": rng.random() < 0.5,
             "mutate": rng.random() < 0.5}
    while len(trace) < nsteps:
        r = rng.random()
        if r < 0.18 and len(comps) < 12:
            parents = [c for c in comps if CHILD_KINDS.get(comps[c]) and depth[c] < 3]
            parent = rng.choice(parents)
            kind = rng.choice(CHILD_KINDS[comps[parent]])
            comps[nid] = kind
            depth[nid] = depth[parent] + 1
            names_used[nid] = {}
            step = {"id": nid, "kind": kind}
            if rng.random() < 0.4:
                # the component is born with content: Cls(mapping) / Cls(pairs) / Cls(**kwargs), names in any case
                form = rng.choice(["dict", "pairs", "kwargs", "ordered"])
                menu = CTOR_NAMES if form != "kwargs" else [n for n in CTOR_NAMES if n.isidentifier()]
                items, seen_u = [], set()
                for name in rng.sample(menu, rng.randint(2, 5)):
                    if name.upper() not in seen_u:
                        seen_u.add(name.upper())
                        items.append([name, f"c{nid}x{len(items)}"])
                        names_used[nid][name.upper()] = 1
                step["init"] = {"form": form, "items": items}
            trace.append([0, "new_comp", step])
            # attach now or later
            trace.append([0, "attach", {"parent": parent, "child": nid, "_late": rng.random() < 0.4,
                                        "direct": rng.random() < 0.25}])
            nid += 1
            continue
        if r < 0.22 and swarm["from_ical"] and len(comps) < 12:
            text = rng.choice(FROM_ICAL_TEXTS)
            if parsed_texts and rng.random() < 0.5:
                text = rng.choice(parsed_texts)      # the same text again: two subtrees from identical lines
            parsed_texts.append(text)
            parents = [c for c in comps if comps[c] in ("VCALENDAR", "X-COMP")]
            parent = rng.choice(parents)
            comps[nid] = "PARSED"
            depth[nid] = 3
            names_used[nid] = {}
            trace.append([0, "from_ical", {"id": nid, "text": text}])
            trace.append([0, "attach", {"parent": parent, "child": nid, "_late": False}])
            nid += 1
            continue
        if r < 0.27 and swarm["amz"]:
            trace.append([0, "amz", {"narrow": rng.random() < 0.85}])
            used_amz = True
            continue
        if r < 0.31 and swarm["noise"]:
            if rng.random() < 0.5:
                trace.append([1, "noise_parse", {"text": rng.choice(NOISE_TEXTS)}])
            else:
                # another client of the same process serialises a tree of its own
                trace.append([1, "noise_serialise", {"kind": rng.choice(["X-COMP", "VEVENT", "VTIMEZONE", "VCALENDAR",
                                                                          "VTODO", "VALARM"]),
                                                     "sorted": rng.random() < 0.8}])
            continue
        if r < 0.40:
            c = rng.choice(sorted(comps))
            trace.append([0, "observe", {"comp": c, "sorted": rng.random() < 0.7}])
            continue
        if r < 0.415 and swarm["mutate"] and len(trace) > 3:
            # a serialisation that fails half-way (a value that cannot be rendered), then the repair: the tree
            # must serialise afterwards as if the episode had not happened
            c = rng.choice([k for k in sorted(comps) if comps[k] != "PARSED"])
            trace.append([0, "poison", {"comp": c, "kind": rng.choice(["int-param", "newline-uri", "newline-param"]),
                                        "sorted": rng.random() < 0.5}])
            continue
        if r < 0.46 and swarm["mutate"]:
            # mutation routes other than add(): edit a stored value's parameters in place, delete a property
            parsed_now = [k for k in sorted(comps) if comps[k] == "PARSED"]
            if parsed_now and rng.random() < 0.3:
                # a parameter is written into a value of a parsed subtree: nothing else in the tree may change
                trace.append([0, "mutate_parsed", {"comp": rng.choice(parsed_now), "param": f"X-MUT{len(trace)}",
                                                   "v": f"v{len(trace)}"}])
                continue
            cands = [k for k in sorted(comps) if comps[k] != "PARSED" and names_used.get(k)]
            zoned_now = sorted((k, n) for k, n in zoned if n in names_used.get(k, {}))
            if zoned_now and rng.random() < 0.3:
                # "make it floating": the TZID parameter of a zoned value is removed - it must not come back
                c, U = rng.choice(zoned_now)
                trace.append([0, "mutate_params", {"comp": c, "name": U, "param": "TZID", "v": "", "how": "pop-tzid"}])
                continue
            if cands:
                c = rng.choice(cands)
                U = rng.choice(sorted(names_used[c]))
                if rng.random() < 0.3:
                    trace.append([0, "mutate_value", {"comp": c, "name": U}])
                elif rng.random() < 0.6:
                    trace.append([0, "mutate_params", {"comp": c, "name": U, "param": f"X-MUT{len(trace)}",
                                                       "v": f"v{len(trace)}",
                                                       "how": rng.choice(["set", "set", "pop", "append-list", "pop-last", "pop-tzid",
                                                                          "pop-tzid"])}])
                else:
                    trace.append([0, "del_prop", {"comp": c, "name": rng.choice([U, U.lower(), U.title()]),
                                                  "how": rng.choice(["pop", "delitem"])}])
                    names_used[c].pop(U, None)
                continue
        # property insertion
        c = rng.choice([k for k in sorted(comps) if comps[k] != "PARSED"] or [0])
        kind = comps[c]
        if swarm["setters"] and kind in ("VEVENT", "VTODO") and rng.random() < 0.15:
            attr = rng.choice(["DTSTART", "start", "end", "DURATION", "DTEND" if kind == "VEVENT" else "DUE"])
            if attr == "DURATION":
                v = _td(rng)
            else:
                v = _dt(rng) if rng.random() < 0.8 else _date(rng)
            trace.append([0, "setattr", {"comp": c, "attr": attr, "v": v}])
            continue
        name = rng.choice(PROP_MENU[kind])
        if rng.random() < 0.008:
            name = rng.choice(["BEGIN", "end", "Begin"])     # the library lets a property have the name of a delimiter
        U = name.upper()
        seen = names_used[c]
        if U in seen and U not in MULTI and rng.random() < 0.8:
            continue
        marker += 1
        vk, v = gen_value(rng, name, f"m{marker}")
        first = U not in seen
        seen[U] = seen.get(U, 0) + 1
        params = []
        if rng.random() < 0.45:
            for p in rng.sample(PARAM_MENU, rng.randint(1, 4)):
                params.append(p)
        if vk.startswith(("dt:", "dtlist:")) and vk.split(":")[1] not in ("floating", "utc"):
            zoned.add((c, U))
        step = {"comp": c, "name": name, "v": v, "vk": vk, "params": params}
        base = vk.split(":")[0]
        if base == "rawonly":
            step["raw"] = vk.split(":")[1]
            trace.append([0, "add", step])
            continue
        if swarm["raw"] and base in RAW_CLASSES and rng.random() < 0.3:
            # README idiom: a raw value object, parameters set on the object itself
            step["raw"] = RAW_CLASSES[base]
            if swarm["setitem"] and (first or rng.random() < 0.3):
                trace.append([0, "setitem", step])
                continue
        trace.append([0, "add", step])
    # late attaches go to the end, in creation order
    late = [s for s in trace if s[1] == "attach" and s[2].get("_late")]
    trace = [s for s in trace if not (s[1] == "attach" and s[2].get("_late"))] + late
    for s in trace:
        if s[1] == "attach":
            s[2].pop("_late", None)
    if swarm["amz"]:
        trace.append([0, "amz", {"narrow": rng.random() < 0.85}])
    perm_seeds = [rng.randrange(1 << 30) for _ in range(cfg.get("perms", 4))]
    return {"cfg": {"provider": provider, "perm_seeds": perm_seeds}, "trace": trace}


def abstract_sig(run):
    parts = [run["cfg"]["provider"]]
    for c, op, a in run["trace"]:
        if op in ("add", "setitem"):
            parts.append(f"{op}:{a['comp']}:{a['name'].upper()}:{a['vk']}:{len(a['params'])}:{a.get('raw', '')}")
        elif op == "new_comp":
            parts.append(f"new:{a['kind']}" + (":" + a["init"]["form"] + str(len(a["init"]["items"])) if a.get("init") else ""))
        elif op == "setattr":
            parts.append(f"set:{a['attr']}:{a['v'][0]}")
        elif op == "observe":
            parts.append(f"obs:{int(a['sorted'])}")
        elif op == "from_ical":
            parts.append("from_ical:%d" % FROM_ICAL_TEXTS.index(a["text"]) if a["text"] in FROM_ICAL_TEXTS else "from_ical")
        else:
            parts.append(op)
    return "|".join(parts)


# ---------------------------------------------------------------------------
# permutations of the insertion history

BARRIERS = ("setattr", "amz", "from_ical", "mutate_params", "del_prop", "mutate_value", "mutate_parsed", "poison")


def permute(trace, seed):
    """Reorder insertions (add/setitem) of distinct caseless names of one component inside
    barrier-free segments; also shuffle parameter pairs and rule-part pairs of each insertion.
    Returns (new trace, moved?)."""
    g = random.Random(seed)
    out = [[s[0], s[1], dict(s[2])] for s in trace]
    moved = False
    # segments: maximal index ranges without a global barrier
    seg_start = 0
    segments = []
    for i, s in enumerate(out):
        if s[1] in BARRIERS:
            segments.append((seg_start, i))
            seg_start = i + 1
    segments.append((seg_start, len(out)))
    for lo, hi in segments:
        by_comp = {}
        for i in range(lo, hi):
            if out[i][1] in ("add", "setitem"):
                by_comp.setdefault(out[i][2]["comp"], []).append(i)
        for comp in sorted(by_comp):
            idx = by_comp[comp]
            if len(idx) < 2:
                continue
            ops = [out[i] for i in idx]
            order = list(range(len(ops)))
            g.shuffle(order)
            shuffled = [ops[j] for j in order]
            # restore the original relative order inside every same-name group
            groups = {}
            for k, s in enumerate(shuffled):
                groups.setdefault(s[2]["name"].upper(), []).append(k)
            orig = {}
            for s in ops:
                orig.setdefault(s[2]["name"].upper(), []).append(s)
            for name in sorted(groups):
                for slot, s in zip(groups[name], orig[name]):
                    shuffled[slot] = s
            if any(a is not b for a, b in zip(shuffled, ops)):
                moved = True
            for i, s in zip(idx, shuffled):
                out[i] = s
    for s in out:
        if s[1] in ("add", "setitem"):
            a = s[2]
            if len(a.get("params") or []) > 1:
                p = list(a["params"])
                g.shuffle(p)
                if p != a["params"]:
                    moved = True
                a["params"] = p
            if a["v"][0] == "recur_pairs":
                p = list(a["v"][1])
                g.shuffle(p)
                a["v"] = ["recur_pairs", p] + list(a["v"][2:])
    return out, moved


# ---------------------------------------------------------------------------
# execution of one variant

class Built:
    def __init__(self):
        self.objs = {}
        self.model = {}     # comp id -> {"kind", "names": ordered {UPPER: [markers or None]}, "children": [ids]}
        self.attached = set()
        self.observations = []
        self.mutated = []    # unique parameter names written into stored values after the fact
        self.amz_objs = []   # VTIMEZONE objects that add_missing_timezones() put into the calendar
        self.error = None


def _value(spec):
    if spec[0] == "recur_pairs":
        from icalendar.prop import vRecur
        mode = spec[2] if len(spec) > 2 else "lists"
        if mode == "lists":
            return vRecur(dict((k, list(v)) for k, v in spec[1]))
        d = dict((k, (v[0] if len(v) == 1 else list(v))) for k, v in spec[1])
        return vRecur(d) if mode == "scalars" else d
    if spec[0] == "geo":
        return (spec[1], spec[2])
    return to_py(spec)


def _params(pairs):
    out = {}
    for k, v in pairs:
        out[k] = to_py(v)
    return out


def _wall_text(v):
    if v[0] == "date":
        return f"{v[1]:04}{v[2]:02}{v[3]:02}"
    return f"{v[1]:04}{v[2]:02}{v[3]:02}T{v[4]:02}{v[5]:02}{v[6]:02}" + ("Z" if v[7] and v[7][0] == "utc" else "")


def _marker_of(a):
    v = a["v"]
    if a["vk"] in ("text", "caladdress") and v[0] == "s" and v[1].isascii() and \
            all(ch.isalnum() or ch in "@.:" for ch in v[1]) and v[1]:
        return v[1]
    return None


def run_variant(trace, res, with_observers, tag, stepbase=0, checks=True):
    """Execute a build history; returns Built."""
    import icalendar.cal as C
    import icalendar.prop as P
    B = Built()
    klass = {"VCALENDAR": C.Calendar, "VEVENT": C.Event, "VTODO": C.Todo, "VJOURNAL": C.Journal,
             "VFREEBUSY": C.FreeBusy, "VTIMEZONE": C.Timezone, "STANDARD": C.TimezoneStandard,
             "DAYLIGHT": C.TimezoneDaylight, "VALARM": C.Alarm}
    last_mutation = max([i for i, s in enumerate(trace) if s[1] not in ("observe", "noise_parse", "noise_serialise")] or [0])
    for stepno, (c, op, a) in enumerate(trace):
        if checks:
            res.steps += 1
        try:
            if op == "new_comp":
                k = klass.get(a["kind"]) or C.Component
                names = {}
                init = a.get("init")
                if init:
                    vals = [(n, P.vText(t)) for n, t in init["items"]]
                    form = init["form"]
                    if form == "dict":
                        comp = k(dict(vals))
                    elif form == "pairs":
                        comp = k(vals)
                    elif form == "kwargs":
                        comp = k(**dict(vals))
                    else:
                        from collections import OrderedDict
                        comp = k(OrderedDict(vals))
                    for n, t in init["items"]:
                        names[n.upper()] = [t]
                    if checks:
                        res.probe("constructed_from_mapping")
                else:
                    comp = k()
                if k is C.Component:
                    comp.name = a["kind"]
                B.objs[a["id"]] = comp
                B.model[a["id"]] = {"kind": a["kind"], "names": names, "children": [], "parsed": False}
            elif op == "from_ical":
                comp = C.Component.from_ical(a["text"])
                B.objs[a["id"]] = comp
                B.model[a["id"]] = {"kind": comp.name, "names": {}, "children": [], "parsed": True}
                if checks:
                    res.probe("subtree_from_ical")
            elif op == "attach":
                p, ch = B.objs.get(a["parent"]), B.objs.get(a["child"])
                if p is None or ch is None or a["child"] in B.attached:
                    res.skipped += 1
                    continue
                if a.get("direct"):
                    p.subcomponents.append(ch)      # the list is public: another way to attach
                else:
                    p.add_component(ch)
                B.attached.add(a["child"])
                B.model[a["parent"]]["children"].append(a["child"])
            elif op in ("add", "setitem"):
                comp = B.objs.get(a["comp"])
                if comp is None:
                    res.skipped += 1
                    continue
                m = B.model[a["comp"]]
                U = a["name"].upper()
                value = _value(a["v"])
                if a.get("raw"):
                    value = getattr(P, a["raw"])(value)
                    for k, v in a["params"]:
                        if v != ["n"]:
                            value.params[k] = to_py(v)
                    if checks and a["params"]:
                        res.probe("raw_value_object_with_params")
                    if op == "setitem":
                        comp[a["name"]] = value
                        m["names"][U] = [_marker_of(a)]
                    else:
                        comp.add(a["name"], value, encode=0)
                        m["names"].setdefault(U, []).append(_marker_of(a))
                else:
                    if op == "setitem":
                        res.skipped += 1
                        continue
                    else:
                        comp.add(a["name"], value, parameters=_params(a["params"]) or None)
                        if a["vk"].startswith(("dtlist", "datelist")) and m.setdefault("lists", {}).get(U, []) is not None:
                            m["lists"].setdefault(U, []).append(",".join(_wall_text(x) for x in a["v"][1]))
                        n = len(value) if isinstance(value, list) and U not in ("RDATE", "EXDATE", "CATEGORIES") else 1
                        m["names"].setdefault(U, []).extend([_marker_of(a)] * n)
                if checks:
                    if len(m["names"][U]) > 1:
                        res.probe("repeated_name")
                    if a["name"] != U and any(s[1] in ("add", "setitem") and s[2]["comp"] == a["comp"]
                                              and s[2]["name"].upper() == U and s[2]["name"] != a["name"]
                                              for s in trace[:stepno]):
                        res.probe("caseless_duplicate_name")
                    vk = a["vk"]
                    res.states.add(f"cov:{op}:{vk}:{'raw' if a.get('raw') else 'api'}")
                    if vk == "dtlist:mixed":
                        res.probe("mixed_zone_list")
                    for z in ("du", "pytz", "zi"):
                        if vk.endswith(":" + z):
                            res.probe({"du": "zoned_dateutil", "pytz": "zoned_pytz", "zi": "zoned_zoneinfo"}[z])
                    if any(p[1][0] == "list" for p in a["params"]):
                        res.probe("list_valued_parameter")
            elif op == "mutate_params":
                comp = B.objs.get(a["comp"])
                m = B.model.get(a["comp"])
                if comp is None or a["name"] not in m["names"]:
                    res.skipped += 1
                    continue
                value = comp[a["name"]]
                if isinstance(value, list):
                    value = value[-1]
                if not hasattr(value, "params"):
                    res.skipped += 1
                    continue
                how = a.get("how", "set")
                keys = sorted(value.params.keys())
                if how == "pop" and keys:
                    value.params.pop(keys[0])                  # C-level pop: no __delitem__
                elif how == "pop-last" and keys:
                    # not popitem(): which item is last depends on the insertion order that permutations vary
                    value.params.pop(keys[-1].lower())
                elif how == "pop-tzid":
                    value.params.pop("TZID", None)             # "make it floating": the zone must not come back
                    if checks and "TZID" in keys:
                        res.probe("tzid_parameter_popped")
                elif how == "append-list":
                    lists = [k for k in keys if isinstance(value.params[k], list)]
                    if lists:
                        value.params[lists[0]].append("mailto:extra@x.org")   # in-place edit of a list value
                    else:
                        value.params[a["param"]] = [a["v"], "second"]
                else:
                    value.params[a["param"]] = a["v"]
                    B.mutated.append(a["param"])
                if checks:
                    res.probe("params_mutated_in_place")
            elif op == "poison":
                comp = B.objs.get(a["comp"])
                if comp is None:
                    res.skipped += 1
                    continue
                if a["kind"] == "int-param":
                    comp.add("x-poison", "v", parameters={"X-P": 5})
                elif a["kind"] == "newline-uri":
                    comp["X-POISON"] = P.vUri("http://example.com/\nx")
                else:
                    comp.add("x-poison", "v", parameters={"X-P": "a\nb"})
                if with_observers:
                    # the observer's call fails - that is the point; what it fails with is not C10's business
                    try:
                        (B.objs.get(0) or comp).to_ical(sorted=a["sorted"])
                        comp.to_ical(sorted=a["sorted"])
                    except Exception:
                        if checks:
                            res.probe("serialisation_failed_half_way")
                            res.faults["serialisation_aborted_by_unrenderable_value"] += 1
                comp.pop("X-POISON", None)
            elif op == "mutate_parsed":
                comp = B.objs.get(a["comp"])
                if comp is None:
                    res.skipped += 1
                    continue
                target = None
                for nm in sorted(comp.keys()):
                    v = comp[nm]
                    v = v[0] if isinstance(v, list) and v else v
                    if hasattr(v, "params") and nm != "FREEBUSY":
                        target = v
                        break
                if target is None:
                    res.skipped += 1
                    continue
                target.params[a["param"]] = a["v"]
                B.mutated.append(a["param"])
                if checks:
                    res.probe("parsed_value_params_mutated")
            elif op == "mutate_value":
                # edit the payload of a stored value in place (public attributes of the value objects)
                comp = B.objs.get(a["comp"])
                m = B.model.get(a["comp"])
                if comp is None or a["name"] not in m["names"]:
                    res.skipped += 1
                    continue
                value = comp[a["name"]]
                if isinstance(value, list):
                    value = value[0]
                from datetime import date as _date, timedelta as _td
                tname = type(value).__name__
                if tname == "vDDDLists" and value.dts:
                    value.dts.append(P.vDDDTypes(value.dts[0].dt))
                elif tname == "vDDDTypes" and isinstance(value.dt, _date):
                    value.dt = value.dt + _td(days=1)
                elif tname == "vCategory":
                    value.cats.append(P.vText("Zed"))
                elif tname == "vRecur":
                    value["INTERVAL"] = [2]
                elif tname == "vGeo":
                    value.latitude = 1.25
                else:
                    res.skipped += 1
                    continue
                if a["name"] in m.get("lists", {}):
                    m["lists"][a["name"]] = None       # entry texts of this name are no longer predicted
                if checks:
                    res.probe("value_payload_mutated_in_place")
            elif op == "del_prop":
                comp = B.objs.get(a["comp"])
                m = B.model.get(a["comp"])
                U = a["name"].upper()
                if comp is None or U not in m["names"]:
                    res.skipped += 1
                    continue
                if a["how"] == "pop":
                    comp.pop(a["name"])
                else:
                    del comp[a["name"]]
                m["names"].pop(U, None)
                m.get("lists", {}).pop(U, None)
                if checks:
                    res.probe("property_deleted")
            elif op == "setattr":
                comp = B.objs.get(a["comp"])
                if comp is None:
                    res.skipped += 1
                    continue
                m = B.model[a["comp"]]
                attr = a["attr"]
                kind = m["kind"]
                real = {"start": "DTSTART", "end": "DTEND" if kind == "VEVENT" else "DUE"}.get(attr, attr)
                setattr(comp, attr, to_py(a["v"]))
                if real in m["names"]:
                    m["names"][real] = [None]
                else:
                    m["names"][real] = [None]
                other = {"DTEND": ["DURATION"], "DUE": ["DURATION"], "DURATION": ["DTEND", "DUE"]}.get(real, [])
                for o in other:
                    m["names"].pop(o, None)
                if checks:
                    res.probe("setter_barrier")
            elif op == "amz":
                comp = B.objs.get(0)
                if comp is None:
                    res.skipped += 1
                    continue
                before = {id(x) for x in comp.subcomponents}
                if a.get("narrow"):
                    from datetime import date
                    comp.add_missing_timezones(first_date=date(2019, 1, 1), last_date=date(2022, 1, 1))
                else:
                    comp.add_missing_timezones()
                # where the library puts the new VTIMEZONEs is its choice (and part of the bytes every incarnation
                # must agree on); the components attached by the client keep their order among themselves
                m0 = B.model[0]
                child_of = {id(B.objs[k]): k for k in m0["children"] if not isinstance(k, tuple) and k in B.objs}
                child_of.update({id(o): ("amz", i) for i, o in enumerate(B.amz_objs)})
                new_children, new_objs = [], []
                for sub in comp.subcomponents:
                    k = child_of.get(id(sub))
                    if k is None and id(sub) not in before:
                        B.amz_objs.append(sub)
                        k = ("amz", len(B.amz_objs) - 1)
                        new_objs.append(sub)
                    if k is not None:
                        new_children.append(k)
                if [k for k in new_children if not isinstance(k, tuple)] != [k for k in m0["children"] if not isinstance(k, tuple)]:
                    res.violate("C10/subcomponent-order/changed-by-add_missing_timezones", stepno,
                                f"attached {m0['children']!r}, now {new_children!r}")
                m0["children"] = new_children
                added = len(new_objs)
                m0["amz_added"] = m0.get("amz_added", 0) + added
                if checks:
                    res.observe(stepno, "add_missing_timezones", [str(dict.get(x, "TZID")) for x in new_objs])
                if checks:
                    res.probe("amz_in_history")
                    if added >= 2:
                        res.probe("amz_added_two_or_more")
            elif op == "noise_serialise":
                k = klass.get(a["kind"])
                other = k() if k else C.Component()
                if not k:
                    other.name = a["kind"]
                other.add("summary", "noise")
                other.add("x-noise", "1")
                other.add("dtstart", to_py(["dt", 2020, 1, 1, 0, 0, 0, ["zi", "Europe/Berlin"]]))
                other.to_ical(sorted=a["sorted"])
                if checks:
                    res.probe("noise_serialise")
            elif op == "noise_parse":
                try:
                    C.Calendar.from_ical(a["text"])
                except ValueError:
                    pass
                if checks:
                    res.probe("noise_parse")
            elif op == "observe":
                if not with_observers:
                    continue
                comp = B.objs.get(a["comp"])
                if comp is None:
                    res.skipped += 1
                    continue
                if checks and stepno < last_mutation:
                    res.probe("observer_before_last_mutation")
                _observe(res, stepbase + stepno, comp, a["sorted"], B, tag)
        except Exception as e:
            B.error = (stepno, op, type(e).__name__, str(e)[:300])
            return B
        if checks:
            res.ops[op] += 1
    return B


def _observe(res, stepno, comp, sorted_flag, B, tag):
    before = snap_component(comp)
    try:
        b1 = comp.to_ical(sorted=sorted_flag)
    except Exception as e:
        res.violate(f"C10/to_ical/raised:{type(e).__name__}", stepno, repr(e)[:300])
        return None
    after = snap_component(comp)
    if before != after:
        res.violate("C10/purity/" + _diff_kind(before, after), stepno,
                    f"to_ical(sorted={sorted_flag}) changed the tree: {_first_diff(before, after)}")
    b2 = comp.to_ical(sorted=sorted_flag)
    if b1 != b2:
        res.violate("C10/determinism/second-call-differs", stepno, f"{b1[:200]!r} vs {b2[:200]!r}")
    if not balanced(b1):
        res.violate("C10/balanced" + _DELIM["sig"], stepno, b1[:300])
    res.observe(stepno, f"observe:{tag}", [sorted_flag, digest(b1.decode('utf-8', 'replace'))])
    return b1


# set per run: "" or the suffix that classifies an unbalanced output of a tree with a property named BEGIN / END
_DELIM = {"sig": ""}


def _first_diff(a, b, path=""):
    if type(a) is not type(b):
        return f"{path}: {a!r} -> {b!r}"[:500]
    if isinstance(a, dict):
        for k in a:
            if a[k] != b.get(k):
                return _first_diff(a[k], b.get(k), path + "/" + str(k))
    if isinstance(a, list):
        if len(a) != len(b):
            return f"{path}: len {len(a)} -> {len(b)}: {a!r} -> {b!r}"[:500]
        for i, (x, y) in enumerate(zip(a, b)):
            if x != y:
                return _first_diff(x, y, path + f"[{i}]")
    return f"{path}: {a!r} -> {b!r}"[:500]


def _diff_kind(a, b):
    d = _first_diff(a, b)
    if "params" in d or "TZID" in d:
        return "value-params-mutated"
    return "tree-mutated"


# ---------------------------------------------------------------------------
# the run: variants A (observers), B (no observers), C_i (permutations)

def execute(run, res):
    trace = run["trace"]
    provider = run["cfg"].get("provider", "zoneinfo")
    delim = any(s[1] in ("add", "setitem") and s[2]["name"].upper() in ("BEGIN", "END") for s in trace)
    _DELIM["sig"] = "/property-named-begin-or-end" if delim else ""
    if delim:
        res.probe("property_named_like_a_delimiter")
    # --- A: with observers ---------------------------------------------------
    world.reset_world(provider)
    A = run_variant(trace, res, True, "A")
    if A.error:
        # a build history that the API itself rejects is not a C10 matter; logged, hash-seed independent
        res.observe(A.error[0], "build-error", list(A.error[1:3]))
        res.probe("build_rejected:" + A.error[2])
        return
    root = A.objs.get(0)
    if root is None:
        return
    nfinal = len(trace)
    res.states.add("shape:" + digest([_shape(A, 0), sorted({s[2]["vk"] for s in trace if s[1] in ("add", "setitem")})]))
    finalA = _final(res, nfinal, root, A, "A", check_model=True)
    if finalA is None:
        return
    # --- B: the same history without observers ---------------------------------
    if any(s[1] == "observe" for s in trace):
        world.reset_world(provider)
        Bv = run_variant(trace, res, False, "B", checks=False)
        if Bv.error:
            res.violate("C10/purity/observer-changed-outcome", Bv.error[0],
                        f"history fails without observers: {Bv.error}")
        else:
            finalB = _final(res, nfinal + 1, Bv.objs[0], Bv, "B", check_model=False)
            if finalB is not None and finalB != finalA:
                res.violate("C10/purity/bytes-differ-with-observers", nfinal + 1,
                            _bytes_diff(finalA[0], finalB[0]) or _bytes_diff(finalA[1], finalB[1]))
    # --- C: permutations -----------------------------------------------------------
    for k, seed in enumerate(run["cfg"].get("perm_seeds", [])):
        ptrace, moved = permute(trace, seed)
        if not moved:
            continue
        res.probe("permutation_moved_something")
        world.reset_world(provider)
        Cv = run_variant(ptrace, res, False, f"P{k}", checks=False)
        if Cv.error:
            res.violate("C10/order-independence/permutation-rejected", Cv.error[0],
                        f"permuted history fails: {Cv.error}")
            continue
        try:
            bp = Cv.objs[0].to_ical(sorted=True)
        except Exception as e:
            res.violate(f"C10/to_ical/raised:{type(e).__name__}", nfinal + 2 + k, repr(e)[:300])
            continue
        if bp != finalA[0]:
            res.violate("C10/order-independence/sorted-bytes-differ", nfinal + 2 + k,
                        _bytes_diff(finalA[0], bp))
        res.observe(nfinal + 2 + k, f"perm{k}", digest(bp.decode("utf-8", "replace")))


def _shape(B, cid):
    m = B.model.get(cid)
    if m is None:
        return "?"
    return [m["kind"], len(m["names"]), [(_shape(B, k) if not isinstance(k, tuple) else "amz") for k in m["children"]]]


def _bytes_diff(a, b):
    if a == b:
        return ""
    la, lb = a.split(b"\r\n"), b.split(b"\r\n")
    for i, (x, y) in enumerate(zip(la, lb)):
        if x != y:
            return f"line {i}: {x[:160]!r} vs {y[:160]!r}"
    return f"length {len(la)} vs {len(lb)} lines"


def _final(res, stepno, root, B, tag, check_model):
    before = snap_component(root)
    try:
        bs = root.to_ical(sorted=True)
        bu = root.to_ical(sorted=False)
    except Exception as e:
        res.violate(f"C10/to_ical/raised:{type(e).__name__}", stepno, repr(e)[:300])
        return None
    after = snap_component(root)
    if before != after:
        res.violate("C10/purity/" + _diff_kind(before, after), stepno,
                    f"final to_ical changed the tree: {_first_diff(before, after)}")
    if root.to_ical(sorted=True) != bs or root.to_ical(sorted=False) != bu:
        res.violate("C10/determinism/second-call-differs", stepno, "final")
    for data, flag in ((bs, True), (bu, False)):
        if not balanced(data):
            res.violate("C10/balanced" + _DELIM["sig"], stepno, data[:300])
            return None
    if check_model:
        _check_wire(res, stepno, bs, bu, B)
    res.observe(stepno, f"final:{tag}", [digest(bs.decode("utf-8", "replace")), digest(bu.decode("utf-8", "replace"))])
    return bs, bu


def _check_wire(res, stepno, bs, bu, B):
    """(e) values of one name and subcomponents in insertion order; (f) sorted=False = first-insertion
    order of names; sorted=True = canonical order."""
    from icalsim.props.c17 import canon
    import icalendar.cal as C
    canon_of = {"VEVENT": C.Event.canonical_order, "VCALENDAR": C.Calendar.canonical_order,
                "VTIMEZONE": C.Timezone.canonical_order}
    for pname in B.mutated:
        n = bs.upper().count(b";" + pname.upper().encode() + b"=")
        if n > 1:
            res.violate("C10/purity/parameters-shared-between-values", stepno,
                        f"parameter {pname} written into one value appears {n} times on the wire")
    for data, sorted_flag in ((bs, True), (bu, False)):
        tree = wire_tree(data)
        if tree is None or len(tree[2]) != 1:
            res.violate("C10/balanced" + _DELIM["sig"], stepno, "not a single balanced tree")
            return
        stack = [(tree[2][0], 0)]
        while stack:
            node, cid = stack.pop()
            m = B.model.get(cid)
            if m is None:
                continue
            wire_names = []
            for n, _ in node[1]:
                if not wire_names or wire_names[-1] != n:
                    wire_names.append(n)
            if not m["parsed"]:
                keys = list(m["names"].keys())
                # sorted=False: exactly the order of first insertion.  sorted=True: *which* order the library sorts
                # into is C17's statement, not C10's (here it only has to be the same for every insertion order and
                # in every process - the permuted variants and the incarnations decide that); the names must all be
                # there, once.
                if (wire_names != keys) if not sorted_flag else (sorted(wire_names) != sorted(keys)):
                    res.violate("C10/property-order/" + ("sorted" if sorted_flag else "insertion"), stepno,
                                f"component {cid} ({m['kind']}): wire {wire_names!r} inserted {keys!r}")
                # entries of list-valued properties in the order given
                for U, texts in m.get("lists", {}).items():
                    if texts is None:
                        continue
                    got = [val for n, val in node[1] if n == U]
                    if got != texts:
                        res.violate("C10/value-order/list-entries", stepno,
                                    f"component {cid} {U}: wire {got!r} want {texts!r}")
                # repeated values in insertion order (marker texts)
                for U, marks in m["names"].items():
                    if len(marks) > 1 and all(x is not None for x in marks):
                        got = [val for n, val in node[1] if n == U]
                        want_v = [x for x in marks]
                        if got != want_v:
                            res.violate("C10/value-order/repeated-name", stepno,
                                        f"component {cid} {U}: wire {got!r} want {want_v!r}")
            # children in attach order
            if m["parsed"]:
                continue
            kids = m["children"]
            if len(node[2]) != len(kids):
                res.violate("C10/subcomponent-order/count", stepno,
                            f"component {cid}: {len(node[2])} on the wire, {len(kids)} attached")
                continue
            for wn, kid in zip(node[2], kids):
                if isinstance(kid, tuple):
                    if wn[0] != "VTIMEZONE":
                        res.violate("C10/subcomponent-order/kind", stepno, f"expected appended VTIMEZONE, got {wn[0]}")
                    continue
                km = B.model[kid]
                if wn[0] != (km["kind"] or "").upper():
                    res.violate("C10/subcomponent-order/kind", stepno,
                                f"component {cid}: child {wn[0]} where {km['kind']} was attached")
                    continue
                stack.append((wn, kid))


def simplify_step(step):
    c, op, a = step
    if op == "new_comp" and a.get("init"):
        yield [c, op, {k: v for k, v in a.items() if k != "init"}]
        items = a["init"]["items"]
        for i in range(len(items)):
            if len(items) > 1:
                yield [c, op, dict(a, init=dict(a["init"], items=items[:i] + items[i + 1:]))]
    if op in ("add", "setitem"):
        if a.get("params"):
            for i in range(len(a["params"])):
                yield [c, op, dict(a, params=a["params"][:i] + a["params"][i + 1:])]
        if a["v"][0] == "list" and len(a["v"][1]) > 1:
            yield [c, op, dict(a, v=["list", a["v"][1][:1]])]
        if a["v"][0] == "recur_pairs" and len(a["v"][1]) > 1:
            for i in range(len(a["v"][1])):
                if a["v"][1][i][0] != "FREQ":
                    yield [c, op, dict(a, v=["recur_pairs", a["v"][1][:i] + a["v"][1][i + 1:]] + list(a["v"][2:]))]
