"""C18 - used-timezone discovery is complete; adding missing timezones closes it.

What the simulator owns (DESIGN.md section 4, C18): histories of mutations and queries on
one or two calendars, and the meaning of "ids the provider knows", which is environment
state: the provider (S1), and the process-wide zone cache (S2) that *other clients'* parses
fill and that provider switches and restarts wipe.  Runs are executed in lock-step under
several interpreter hash seeds.
"""
from icalsim import world
from icalsim import zonegen
from icalsim.snapshot import snap_component, wire_tzids
from icalsim.values import to_py

ID = "C18"
RULE = ("each run = one history of 4..30 steps by 1-3 clients sharing one simulated process: calendars are grown by "
        "API and by parsing (VEVENT/VTODO/VJOURNAL/VFREEBUSY/VALARM/X- components to depth 3; zoned DTSTART/DTEND/"
        "DUE/RECURRENCE-ID, multi-valued RDATE/EXDATE, FREEBUSY periods, X- properties with TZID; used, unused, "
        "unknown, duplicate and TZID-less VTIMEZONEs), queried, completed with add_missing_timezones (default and "
        "narrow windows, always called twice), sent through the store and re-parsed, while other clients' parses "
        "define custom ids in the process-wide cache and the environment switches provider or restarts; after every "
        "step both queries are compared with a set-of-TZIDs model; non-trivial = reached a probe; distinct = "
        "distinct abstract histories (op kind, component kind, id class per step)")
STATE_MEASURE = ("abstract state = (|used - present| in {0,1,2+}) x (unused VTIMEZONE present?) x (unknown id used?) x "
                 "(custom id known through the shared cache used?) x provider")
STATE_SPACE = 3 * 2 * 2 * 2 * 2
COV_MEASURE = "op kind x abstract pre-state pairs"
HARNESS_COMPONENTS = ["clients", "op-level scheduler", "set-of-TZIDs reference model", "durable store (bytes)",
                      "process lifecycle: provider switch, soft restart", "interpreter hash seed (lock-step)"]
ASSUMPTIONS = [
    "'an id the provider knows' is read through the library's own tzp.timezone(id) is not None at check time",
    "when a calendar already holds n>1 VTIMEZONEs of one id, 'exactly one' is read as 'no further one is added'",
    "TZID parameters are single strings (list-valued and path-like ids are C04's hostile inputs)",
]

HISTORY_CHECK = True   # last runs of every chunk are re-observed alone in a fresh interpreter

TIERS = {
    "quick":    {"runs": 1280,  "chunk": 40,  "hash_seeds": [0, 1], "max_steps": 24, "timeout": 900},
    "thorough": {"history_check_cap": 200, "runs": 12000, "chunk": 150, "max_wall": 2400, "hash_seeds": [0, 1, 2, 7], "max_steps": 30, "timeout": 3400},
    "selftest": {"runs": 160,   "chunk": 20,  "hash_seeds": [0, 3], "max_steps": 24, "timeout": 300},
}
REQUIRED_PROBES = {"quick": ["unused_vtimezone_present", "unknown_id_used", "custom_id_known_via_cache",
                             "amz_added", "amz_skipped_unknown", "nested_depth3", "multi_valued_entry",
                             "roundtrip", "restart_made_id_unknown", "duplicate_vtimezone", "tzidless_vtimezone",
                             "windows_id", "slash_prefixed_id", "narrow_window", "zoned_property_removed",
                             "zoned_property_replaced", "tzid_parameter_edited_in_place", "window_given_as_datetime",
                             "vtimezone_renamed_in_place", "tzid_on_falsy_value", "list_valued_tzid"]}
REQUIRED_PROBES["thorough"] = REQUIRED_PROBES["quick"]

IANA = ["Europe/Berlin", "America/New_York", "Asia/Kolkata"]
CUSTOM = ["Sim/A", "Sim/B", "Sïm/Ü", "/Sim/A"]     # "/Sim/A" and "Sim/A" share one cleaned id in the zone cache
OTHER = ["/Europe/Berlin", "W. Europe Standard Time", "Nowhere/Unknown", "europe/berlin"]
POOL = IANA + CUSTOM + OTHER
WALLS = [[2020, 3, 10, 10, 0, 0], [2020, 3, 29, 2, 30, 0], [2021, 11, 7, 1, 30, 0], [1999, 12, 31, 23, 59, 59],
         [2030, 6, 1, 12, 0, 0]]

KINDS = {
    "VEVENT": ["DTSTART", "DTEND", "RECURRENCE-ID", "RDATE", "EXDATE", "X-WHEN", "LOCATION", "SEQUENCE"],
    "VTODO": ["DTSTART", "DUE", "RDATE", "X-WHEN", "PERCENT-COMPLETE"],
    "VJOURNAL": ["DTSTART", "RDATE", "EXDATE"],
    "VFREEBUSY": ["DTSTART", "DTEND", "FREEBUSY"],
    "VALARM": ["X-WHEN"],
    "X-COMP": ["X-WHEN", "DTSTART"],
    "VTIMEZONE": ["X-WHEN", "X-WHEN", "LOCATION"],      # "any property of any nested component": definitions, too
}
CONTAINERS = {"VCALENDAR": ["VEVENT", "VTODO", "VJOURNAL", "VFREEBUSY", "X-COMP"],
              "VEVENT": ["VALARM", "X-COMP"], "VTODO": ["VALARM"], "X-COMP": ["VEVENT", "VTODO", "X-COMP", "VALARM"],
              "VJOURNAL": [], "VFREEBUSY": [], "VALARM": []}
LIST_PROPS = ("RDATE", "EXDATE")
# "any property": a TZID parameter also counts on values that are no date-times - empty, zero and False ones included
XVALS = {"X-WHEN": [["s", "some text"], ["s", "some text"], ["s", ""]], "LOCATION": [["s", ""], ["s", "Room 1"]],
         "SEQUENCE": [["i", 0], ["i", 3]], "PERCENT-COMPLETE": [["i", 0], ["i", 50]]}


def id_class(tzid):
    if tzid is None:
        return "none"
    if tzid in IANA:
        return "iana"
    if tzid in CUSTOM:
        return "custom"
    return {"/Europe/Berlin": "slash", "W. Europe Standard Time": "windows", "europe/berlin": "lowercase"}.get(tzid, "unknown")


# ---------------------------------------------------------------------------
# model

class Node:
    def __init__(self, nid, kind, vtz_id=None):
        self.id = nid
        self.kind = kind
        self.tzids = []        # [NAME, tzid] per property entry carrying a TZID parameter
        self.children = []
        self.vtz_id = vtz_id   # for VTIMEZONE nodes
        self.names = []        # generation only: names of all properties added so far (zoned or not)

    def walk(self):
        yield self
        for c in self.children:
            yield from c.walk()

    def depth_of(self, nid, d=0):
        if self.id == nid:
            return d
        for c in self.children:
            r = c.depth_of(nid, d + 1)
            if r is not None:
                return r
        return None


def m_used(root):
    return {t for n in root.walk() for _, t in n.tzids}


def m_present(root):
    return [n.vtz_id for n in root.walk() if n.kind == "VTIMEZONE"]


def m_missing(root):
    return m_used(root) - {p for p in m_present(root) if p is not None}


# ---------------------------------------------------------------------------
# generation (reads its own approximate model only)

def _propspec(rng, kind, ids, via):
    name = rng.choice(KINDS[kind])
    tzid = rng.choice(ids) if rng.random() < 0.8 else None
    spec = {"name": name, "tzid": tzid, "vals": [rng.choice(WALLS)]}
    if name in LIST_PROPS:
        spec["vals"] = [rng.choice(WALLS) for _ in range(rng.randint(1, 3))]
        spec["shape"] = "list"
    elif name == "FREEBUSY":
        spec["shape"] = "period"
        spec["vals"] = [rng.choice(WALLS) for _ in range(rng.randint(1, 2))]
        spec["addas"] = rng.choice(["each", "list", "list"])     # one add() per period, or one add() with a list
    elif name in XVALS:
        spec["shape"] = "xparam"
        spec["xval"] = rng.choice(XVALS[name])
        others = [t for t in ids if t != tzid]
        if tzid is not None and others and rng.random() < 0.15:
            spec["tzid2"] = rng.choice(others)       # TZID=a,b: a list of ids on one value
    else:
        spec["shape"] = "single"
        if rng.random() < 0.12:
            spec["asdate"] = True      # the all-day export style: DTSTART;VALUE=DATE;TZID=...:20200101
    # how an API client attaches the zone: a tz object (IANA ids only) or an explicit TZID parameter
    if via == "api":
        if tzid in IANA and rng.random() < 0.7 and spec["shape"] != "xparam":
            spec["tzkind"] = rng.choice(["zi", "pytz"])
        else:
            spec["tzkind"] = "param"
    if spec.get("asdate"):
        spec["tzkind"] = "param"
    return spec


def generate(rng, cfg):
    from icalsim.rng import pick_weighted
    ncal = rng.choice([1, 1, 2])
    provider = rng.choice(["zoneinfo", "zoneinfo", "pytz"])
    ids = rng.sample(POOL, rng.randint(3, 6))
    ids.sort(key=POOL.index)
    trace = []
    models = {}
    next_id = [1]
    for c in range(ncal):
        trace.append([c, "new_cal", {}])
        models[c] = Node(0, "VCALENDAR")
    weights = [("add_comp", 10), ("add_prop", 5), ("del_prop", 2.5), ("replace_prop", 2), ("edit_param", 1.5),
               ("add_vtz", 4), ("edit_vtz", 1.5), ("amz", 4), ("roundtrip", 2), ("query", 1),
               ("other_parse", 3), ("provider_switch", 1), ("soft_restart", 1.5)]
    weights = [(o, w) for o, w in weights if o in ("add_comp", "amz") or rng.random() < 0.85]
    nsteps = rng.randint(4, cfg.get("max_steps", 24))
    for _ in range(nsteps):
        op = pick_weighted(rng, weights)
        c = rng.randrange(ncal)
        root = models[c]
        if op == "add_comp":
            nodes = [n for n in root.walk() if CONTAINERS.get(n.kind) and (root.depth_of(n.id) or 0) < 3]
            deep = [n for n in nodes if n.id != 0]
            parent = rng.choice(deep) if deep and rng.random() < 0.45 else root
            kind = rng.choice(CONTAINERS[parent.kind])
            via = rng.choice(["api", "parse"])
            props = [_propspec(rng, kind, ids, via) for _ in range(rng.randint(0, 3))]
            nid = next_id[0]
            next_id[0] += 1
            node = Node(nid, kind)
            node.tzids = _entry_tzids(props)
            node.names = [p["name"] for p in props]
            parent.children.append(node)
            trace.append([c, "add_comp", {"id": nid, "parent": parent.id, "kind": kind, "via": via, "props": props,
                                          "lower": via == "parse" and rng.random() < 0.15}])
        elif op == "add_prop":
            nodes = [n for n in root.walk() if n.kind in KINDS]
            if not nodes:
                continue
            node = rng.choice(nodes)
            p = _propspec(rng, node.kind, ids, "api")
            again = [n for n in node.names if n in LIST_PROPS]
            if again and rng.random() < 0.35:
                # one more line of a multi-valued property that is already there (one add() per line), preferably
                # in a zone that nothing else in the calendar uses
                fresh = [t for t in ids if t not in m_used(root)]
                p = {"name": rng.choice(again), "shape": "list", "tzkind": "param",
                     "tzid": rng.choice(fresh or ids) if rng.random() < 0.8 else None,
                     "vals": [rng.choice(WALLS) for _ in range(rng.randint(1, 2))]}
            node.names.append(p["name"])
            node.tzids += _entry_tzids([p])
            trace.append([c, "add_prop", {"comp": node.id, "prop": p}])
        elif op in ("del_prop", "replace_prop", "edit_param"):
            nodes = [n for n in root.walk() if n.kind in KINDS and n.tzids]
            if not nodes:
                continue
            node = rng.choice(nodes)
            name = rng.choice(sorted({nm for nm, _ in node.tzids}))
            if op == "del_prop":
                how = rng.choice(["pop", "delitem", "attr"])
                if how == "attr" and not (node.kind in ("VEVENT", "VTODO") and name in ("DTSTART", "DTEND", "DUE")):
                    how = "pop"
                node.tzids = [e for e in node.tzids if e[0] != name]
                trace.append([c, "del_prop", {"comp": node.id, "name": name, "how": how}])
            elif op == "replace_prop":
                p = _propspec(rng, node.kind, ids, "api")
                p["name"] = name
                if name not in XVALS:
                    p.pop("tzid2", None)      # a list of ids only on values that are no date-times
                    p.pop("xval", None)
                if name in LIST_PROPS:
                    p["shape"], p["vals"] = "list", [rng.choice(WALLS)]
                elif name == "FREEBUSY":
                    p["shape"], p["vals"] = "period", [rng.choice(WALLS)]
                elif name in XVALS:
                    p["shape"], p["tzkind"], p["xval"] = "xparam", "param", rng.choice(XVALS[name])
                else:
                    p["shape"] = "single"
                node.tzids = [e for e in node.tzids if e[0] != name] + _entry_tzids([p])
                trace.append([c, "replace_prop", {"comp": node.id, "prop": p}])
            else:
                if sum(1 for e in node.tzids if e[0] == name) != 1:
                    continue        # periods parsed from one FREEBUSY line share one parameter object
                newid = rng.choice(ids)
                for e in node.tzids:
                    if e[0] == name:
                        e[1] = newid
                        break
                trace.append([c, "edit_param", {"comp": node.id, "name": name, "tzid": newid}])
        elif op == "add_vtz":
            used = sorted(m_used(root), key=POOL.index)
            present = [p for p in m_present(root) if p]
            r = rng.random()
            if r < 0.45 and used:
                tzid = rng.choice(used)            # a used one
            elif r < 0.8:
                tzid = rng.choice(ids)             # possibly unused / unknown
            elif r < 0.9:
                tzid = None                        # malformed: no TZID at all
            else:
                tzid = rng.choice(present) if present else rng.choice(ids)  # duplicate
            if tzid in present and r < 0.8:
                continue                           # duplicates only when asked for
            xs = [n for n in root.walk() if n.kind == "X-COMP"]
            parent = rng.choice(xs) if xs and rng.random() < 0.2 else root
            nid = next_id[0]
            next_id[0] += 1
            parent.children.append(Node(nid, "VTIMEZONE", tzid))
            trace.append([c, "add_vtz", {"id": nid, "parent": parent.id, "tzid": tzid,
                                         "via": rng.choice(["api", "parse"]), "std": rng.choice([60, -300, 345])}])
        elif op == "edit_vtz":
            vtzs = [n for n in root.walk() if n.kind == "VTIMEZONE"]
            if not vtzs:
                continue
            nth = rng.randrange(len(vtzs))
            how = rng.choice(["setitem", "setitem", "pop+add", "del"])
            newid = None if how == "del" else rng.choice(ids)
            vtzs[nth].vtz_id = newid
            # addressed by position: the VTIMEZONEs that a completion appends have no id of their own in the trace
            trace.append([c, "edit_vtz", {"nth": nth, "how": how, "tzid": newid}])
        elif op == "amz":
            window = None
            if rng.random() < 0.4:
                y = rng.choice([1995, 2010, 2019, 2020])
                window = [[y, rng.randint(1, 12), 1], [y + rng.choice([0, 0, 1, 5]), rng.randint(1, 12), 28]]
                if rng.random() < 0.3:
                    # days that only some years have, month ends, windows of a few days
                    y = rng.choice([1996, 2020, 2024])
                    window = [rng.choice([[y, 2, 29], [y, 2, 29], [y, 12, 31], [y, 1, 31]]), None]
                    window[1] = rng.choice([[y, rng.randint(3, 12), 28], [y + 1, 2, 28], [y + 4, 2, 29], window[0]])
                if window[1] < window[0]:
                    window[1] = window[0]
            wkind = rng.choice(["date", "date", "naive-dt", "aware-zi", "aware-pytz"]) if window else "date"
            trace.append([c, "amz", {"window": window, "wkind": wkind}])
            for t in sorted(m_missing(root), key=POOL.index):
                if t != "Nowhere/Unknown":
                    nid = next_id[0]
                    next_id[0] += 1
                    root.children.append(Node(nid, "VTIMEZONE", t))
        elif op == "roundtrip":
            trace.append([c, "roundtrip", {}])
        elif op == "query":
            trace.append([c, "query", {}])
        elif op == "other_parse":
            trace.append([2, "other_parse", {"tzid": rng.choice(CUSTOM + ["Nowhere/Unknown", "Europe/Berlin"]),
                                             "std": rng.choice([60, 120, -480]), "use": rng.random() < 0.8}])
        elif op == "provider_switch":
            provider2 = rng.choice(["zoneinfo", "pytz"])
            trace.append(["env", "provider_switch", {"p": provider2}])
        else:
            trace.append(["env", "soft_restart", {}])
    # every history ends with a completion and a final query on every calendar
    for c in range(ncal):
        trace.append([c, "amz", {"window": None}])
    return {"cfg": {"provider": provider, "ids": ids}, "trace": trace}


def _entry_tzids(props):
    out = []
    for p in props:
        if p["tzid"] is None:
            continue
        name = p["name"].upper()
        if p["shape"] == "period":
            out += [[name, p["tzid"]] for _ in p["vals"]]   # one FREEBUSY entry per period
        else:
            out.append([name, p["tzid"]])
            if p.get("tzid2"):
                out.append([name, p["tzid2"]])
    return out


def abstract_sig(run):
    parts = [run["cfg"]["provider"]]
    for c, op, a in run["trace"]:
        if op == "add_comp":
            parts.append("c%s:%s:%s:%s:%s" % (c, op, a["kind"], a["via"],
                                             ",".join(p["name"] + "/" + id_class(p["tzid"]) for p in a["props"])))
        elif op == "add_prop":
            parts.append("c%s:%s:%s/%s" % (c, op, a["prop"]["name"], id_class(a["prop"]["tzid"])))
        elif op == "add_vtz":
            parts.append("c%s:%s:%s:%s" % (c, op, id_class(a["tzid"]), a["via"]))
        elif op == "del_prop":
            parts.append("c%s:del:%s:%s" % (c, a["name"], a["how"]))
        elif op == "replace_prop":
            parts.append("c%s:replace:%s/%s" % (c, a["prop"]["name"], id_class(a["prop"]["tzid"])))
        elif op == "edit_param":
            parts.append("c%s:edit:%s/%s" % (c, a["name"], id_class(a["tzid"])))
        elif op == "edit_vtz":
            parts.append("c%s:editvtz:%s/%s" % (c, a["how"], id_class(a["tzid"])))
        elif op == "amz":
            parts.append("c%s:amz:%s" % (c, "w" if a["window"] else "d"))
        elif op == "other_parse":
            parts.append("other:%s" % id_class(a["tzid"]))
        elif op == "provider_switch":
            parts.append("prov:" + a["p"])
        else:
            parts.append(f"c{c}:{op}")
    return "|".join(parts)


# ---------------------------------------------------------------------------
# text rendering and API building of properties

def _fmt(w):
    return f"{w[0]:04}{w[1]:02}{w[2]:02}T{w[3]:02}{w[4]:02}{w[5]:02}"


def _end(w):
    return [w[0], w[1], w[2], min(w[3] + 1, 23), w[4], w[5]] if w[3] < 23 else [w[0] + 1, 1, 1, 0, 0, 0]


def prop_line(p):
    par = f";TZID={p['tzid']}" if p["tzid"] is not None else ""
    if p.get("tzid2"):
        par += "," + p["tzid2"]
    if p["shape"] == "xparam":
        return f"{p['name']}{par}:{p.get('xval', ['s', 'some text'])[1]}"
    if p["shape"] == "list":
        return f"{p['name']}{par}:" + ",".join(_fmt(w) for w in p["vals"])
    if p["shape"] == "period":
        return f"{p['name']}{par}:" + ",".join(_fmt(w) + "/" + _fmt(_end(w)) for w in p["vals"])
    if p.get("asdate"):
        return f"{p['name']};VALUE=DATE{par}:{_fmt(p['vals'][0])[:8]}"
    return f"{p['name']}{par}:{_fmt(p['vals'][0])}"


def comp_text(kind, props, lower=False):
    b, e = ("begin", "end") if lower else ("BEGIN", "END")
    k = kind.lower() if lower else kind
    lines = [f"{b}:{k}"] + [prop_line(p) for p in props] + [f"{e}:{k}"]
    return "\r\n".join(lines) + "\r\n"


def api_add(comp, p):
    """What an API client does to attach property p."""
    tzid, kind = p["tzid"], p.get("tzkind", "param")
    params = None

    def dt(w):
        if tzid is None or kind == "param":
            return to_py(["dt", *w, None])
        return to_py(["dt", *w, [kind, tzid]])
    if tzid is not None and kind == "param":
        params = {"TZID": [tzid, p["tzid2"]] if p.get("tzid2") else tzid}
    if p["shape"] == "xparam":
        comp.add(p["name"], p.get("xval", ["s", "some text"])[1], parameters=params)
    elif p["shape"] == "list":
        comp.add(p["name"], [dt(w) for w in p["vals"]], parameters=params)
    elif p["shape"] == "period" and p.get("addas") == "list":
        comp.add(p["name"], [(dt(w), dt(_end(w))) for w in p["vals"]], parameters=params)
    elif p["shape"] == "period":
        for w in p["vals"]:
            comp.add(p["name"], (dt(w), dt(_end(w))), parameters=params)
    elif p.get("asdate"):
        from datetime import date as _date
        comp.add(p["name"], _date(*p["vals"][0][:3]), parameters=params)
    else:
        comp.add(p["name"], dt(p["vals"][0]), parameters=params)


# ---------------------------------------------------------------------------
# execution

class Cal:
    def __init__(self, obj):
        self.obj = obj
        self.root = Node(0, "VCALENDAR")
        self.objs = {0: obj}
        self.dups = set()


def _outcome_set(fn):
    try:
        r = fn()
    except Exception as e:
        return ["exc", type(e).__name__, str(e)[:200]]
    try:
        return ["val", sorted(r)]
    except TypeError:
        return ["val", sorted(map(repr, r))]


def _known(tzid):
    try:
        return world.tzp().timezone(tzid) is not None
    except Exception:
        return False


def execute(run, res):
    import icalendar
    from icalendar import Calendar
    import icalendar.cal as C
    cals = {}
    custom_defined = set()
    for stepno, (c, op, a) in enumerate(run["trace"]):
        res.steps += 1
        # -------- environment events ------------------------------------------------
        if c == "env":
            res.ops[op] += 1
            before_known = {t for t in CUSTOM if _known(t)}
            if op == "provider_switch":
                world.provider_switch(a["p"])
            else:
                world.soft_restart()
            if before_known and not {t for t in before_known if _known(t)} == before_known:
                res.probe("restart_made_id_unknown")
            res.observe(stepno, op, world.provider_name())
            for k in sorted(cals):
                _check_queries(res, stepno, op, cals[k])
            continue
        if op == "other_parse":
            res.ops[op] += 1
            d = zonegen.simple_definition(a["tzid"], a["std"])
            lines = ["BEGIN:VCALENDAR", "VERSION:2.0", "PRODID:other"] + zonegen.vtimezone_lines(d)
            if a["use"]:
                lines += ["BEGIN:VEVENT", "UID:o", f"DTSTART;TZID={a['tzid']}:20200310T100000", "END:VEVENT"]
            lines.append("END:VCALENDAR")
            try:
                Calendar.from_ical("\r\n".join(lines) + "\r\n")
            except Exception as e:
                res.violate(f"C18/other_parse/raised:{type(e).__name__}", stepno, repr(e))
            res.observe(stepno, op, a["tzid"])
            for k in sorted(cals):
                _check_queries(res, stepno, op, cals[k])
            continue
        # -------- client operations on calendar c ---------------------------------------
        if op == "new_cal":
            cal = Calendar()
            cal.add("version", "2.0")
            cal.add("prodid", "-//icalsim//C18//")
            cals[c] = Cal(cal)
            res.ops[op] += 1
            _check_queries(res, stepno, op, cals[c])
            continue
        K = cals.get(c)
        if K is None:
            res.skipped += 1
            continue
        pre = _abstract(K)
        res.states.add(f"cov:{op}:{pre}")
        if op == "add_comp":
            parent = K.objs.get(a["parent"])
            pnode = _node(K.root, a["parent"])
            if parent is None or pnode is None:
                res.skipped += 1
                continue
            res.ops[f"{op}:{a['via']}"] += 1
            klass = {"VEVENT": C.Event, "VTODO": C.Todo, "VJOURNAL": C.Journal, "VFREEBUSY": C.FreeBusy,
                     "VALARM": C.Alarm}.get(a["kind"])
            try:
                if a["via"] == "parse":
                    comp = C.Component.from_ical(comp_text(a["kind"], a["props"], a.get("lower", False)))
                else:
                    comp = klass() if klass else C.Component()
                    if not klass:
                        comp.name = a["kind"]
                    for p in a["props"]:
                        api_add(comp, p)
                parent.add_component(comp)
            except Exception as e:
                res.violate(f"C18/add_comp/{a['via']}/raised:{type(e).__name__}", stepno, repr(e))
                continue
            node = Node(a["id"], a["kind"])
            node.tzids = _entry_tzids(a["props"])
            pnode.children.append(node)
            K.objs[a["id"]] = comp
            if (K.root.depth_of(a["id"]) or 0) >= 3:
                res.probe("nested_depth3")
            _probe_props(res, a["props"])
        elif op == "add_prop":
            comp = K.objs.get(a["comp"])
            node = _node(K.root, a["comp"])
            if comp is None or node is None:
                res.skipped += 1
                continue
            res.ops[op] += 1
            try:
                api_add(comp, a["prop"])
            except Exception as e:
                res.violate(f"C18/add_prop/raised:{type(e).__name__}", stepno, repr(e))
                continue
            node.tzids += _entry_tzids([a["prop"]])
            _probe_props(res, [a["prop"]])
        elif op in ("del_prop", "replace_prop", "edit_param"):
            comp = K.objs.get(a["comp"])
            node = _node(K.root, a["comp"])
            name = a["name"] if op != "replace_prop" else a["prop"]["name"].upper()
            if comp is None or node is None or not any(e[0] == name for e in node.tzids):
                res.skipped += 1
                continue
            res.ops[op] += 1
            try:
                if op == "del_prop":
                    if a["how"] == "pop":
                        comp.pop(name.lower())
                    elif a["how"] == "delitem":
                        del comp[name]
                    else:
                        delattr(comp, name)
                    node.tzids = [e for e in node.tzids if e[0] != name]
                    res.probe("zoned_property_removed")
                elif op == "replace_prop":
                    tmp = C.Component()
                    api_add(tmp, a["prop"])
                    comp[name] = tmp[name]
                    node.tzids = [e for e in node.tzids if e[0] != name] + _entry_tzids([a["prop"]])
                    res.probe("zoned_property_replaced")
                else:
                    value = comp[name]
                    if isinstance(value, list) or sum(1 for e in node.tzids if e[0] == name) != 1:
                        res.skipped += 1
                        continue
                    value.params["TZID"] = a["tzid"]
                    for e in node.tzids:
                        if e[0] == name:
                            e[1] = a["tzid"]
                            break
                    res.probe("tzid_parameter_edited_in_place")
            except Exception as e:
                res.violate(f"C18/{op}/raised:{type(e).__name__}", stepno, repr(e))
                continue
        elif op == "add_vtz":
            parent = K.objs.get(a["parent"])
            pnode = _node(K.root, a["parent"])
            if parent is None or pnode is None:
                res.skipped += 1
                continue
            res.ops[f"{op}:{a['via']}"] += 1
            d = zonegen.simple_definition(a["tzid"] or "x", a["std"])
            try:
                if a["via"] == "parse":
                    text = "\r\n".join(zonegen.vtimezone_lines(d, with_tzid=a["tzid"] is not None)) + "\r\n"
                    tzc = C.Timezone.from_ical(text)
                else:
                    tzc = C.Timezone()
                    if a["tzid"] is not None:
                        tzc.add("TZID", a["tzid"])
                    std = C.TimezoneStandard()
                    std.DTSTART = to_py(["dt", 1970, 1, 1, 0, 0, 0, None])
                    std.TZOFFSETFROM = to_py(["td", 0, 0]) + __import__("datetime").timedelta(minutes=a["std"])
                    std.TZOFFSETTO = std.TZOFFSETFROM
                    std.add("TZNAME", "SIM")
                    tzc.add_component(std)
                parent.add_component(tzc)
            except Exception as e:
                res.violate(f"C18/add_vtz/{a['via']}/raised:{type(e).__name__}", stepno, repr(e))
                continue
            if a["tzid"] is not None and a["tzid"] in [p for p in m_present(K.root)]:
                K.dups.add(a["tzid"])
                res.probe("duplicate_vtimezone")
            if a["tzid"] is None:
                res.probe("tzidless_vtimezone")
            pnode.children.append(Node(a["id"], "VTIMEZONE", a["tzid"]))
            K.objs[a["id"]] = tzc
        elif op == "edit_vtz":
            vtzs = [n for n in K.root.walk() if n.kind == "VTIMEZONE"]
            if not vtzs:
                res.skipped += 1
                continue
            node = vtzs[a["nth"] % len(vtzs)]
            tzc = K.objs.get(node.id)
            if tzc is None:
                res.skipped += 1
                continue
            res.ops[f"{op}:{a['how']}"] += 1
            try:
                if a["how"] == "del":
                    if "TZID" in tzc:
                        del tzc["tzid"]
                elif a["how"] == "setitem":
                    tzc["TZID"] = a["tzid"]            # a plain str, as client code writes it
                else:
                    tzc.pop("TZID", None)
                    tzc.add("tzid", a["tzid"])
            except Exception as e:
                res.violate(f"C18/edit_vtz/raised:{type(e).__name__}", stepno, repr(e))
                continue
            if node.vtz_id is not None and node.vtz_id != a["tzid"]:
                res.probe("vtimezone_renamed_in_place")
            node.vtz_id = a["tzid"]
        elif op == "query":
            res.ops[op] += 1
        elif op == "roundtrip":
            res.ops[op] += 1
            try:
                data = K.obj.to_ical()
            except Exception as e:
                res.violate(f"C18/roundtrip/to_ical-raised:{type(e).__name__}", stepno, repr(e))
                continue
            try:
                new = Calendar.from_ical(data)
            except Exception as e:
                # C18 says nothing about parsing (a degenerate VTIMEZONE generated for a one-day window
                # cannot be converted back to a zone; exception types out of from_ical are C04's business):
                # the client simply keeps its calendar object.
                res.probe(f"roundtrip_parse_failed:{type(e).__name__}")
                new = None
            wire = sorted(set(wire_tzids(data)))
            if wire != sorted(m_used(K.root)):
                res.violate("C18/roundtrip/wire-tzids", stepno,
                            f"TZID parameters on the wire {wire!r} != model {sorted(m_used(K.root))!r}")
            objs = {}
            if new is None:
                pass
            elif not _remap(new, K.root, objs):
                res.violate("C18/roundtrip/shape", stepno, "re-parsed tree has another shape")
                continue
            else:
                K.obj, K.objs = new, objs
                res.probe("roundtrip")
        elif op == "amz":
            res.ops[op] += 1
            _amz(res, stepno, K, a)
        _check_queries(res, stepno, op, K)


def _probe_props(res, props):
    for p in props:
        if p["tzid"] is None:
            continue
        if p["shape"] in ("list", "period") and len(p["vals"]) > 1:
            res.probe("multi_valued_entry")
        if p["shape"] == "xparam" and not p.get("xval", ["s", "x"])[1]:
            res.probe("tzid_on_falsy_value")
        if p.get("tzid2"):
            res.probe("list_valued_tzid")
        cls = id_class(p["tzid"])
        if cls == "windows":
            res.probe("windows_id")
        if cls == "slash":
            res.probe("slash_prefixed_id")


def _node(root, nid):
    for n in root.walk():
        if n.id == nid:
            return n
    return None


def _remap(obj, node, objs):
    objs[node.id] = obj
    if node.kind == "VTIMEZONE":
        return True   # observances below a VTIMEZONE are not modelled
    subs = obj.subcomponents
    if len(subs) != len(node.children):
        return False
    for s, n in zip(subs, node.children):
        if (s.name or "").upper() != n.kind:
            return False
        if not _remap(s, n, objs):
            return False
    return True


def _abstract(K):
    used = m_used(K.root)
    present = {p for p in m_present(K.root) if p}
    miss = used - present
    unknown_used = any(not _known(t) for t in used)
    custom_known = any(t in CUSTOM and _known(t) for t in used)
    return "%s/%s/%s/%s/%s" % (min(len(miss), 2), int(bool(present - used)), int(unknown_used), int(custom_known),
                               world.provider_name())


def _check_queries(res, stepno, op, K):
    used = m_used(K.root)
    present = m_present(K.root)
    want_used = ["val", sorted(used)]
    want_missing = ["val", sorted(used - {p for p in present if p is not None})]
    got_used = _outcome_set(K.obj.get_used_tzids)
    got_missing = _outcome_set(K.obj.get_missing_tzids)
    if {p for p in present if p is not None} - used:
        res.probe("unused_vtimezone_present")
    if any(not _known(t) for t in used):
        res.probe("unknown_id_used")
    if any(t in CUSTOM and _known(t) for t in used):
        res.probe("custom_id_known_via_cache")
    res.states.add(_abstract(K))
    if got_used != want_used:
        kind = f"raised:{got_used[1]}" if got_used[0] == "exc" else "wrong-set"
        res.violate(f"C18/get_used_tzids/{kind}", stepno, f"got {got_used!r} want {want_used!r} after {op}")
    if got_missing != want_missing:
        if got_missing[0] == "exc":
            why = []
            if {p for p in present if p is not None} - used:
                why.append("unused-vtimezone")
            if None in present:
                why.append("tzidless-vtimezone")
            if len(present) != len(set(present)):
                why.append("duplicate-vtimezone")
            kind = f"raised:{got_missing[1]}:" + "+".join(why or ["other"])
        else:
            kind = "wrong-set"
        res.violate(f"C18/get_missing_tzids/{kind}", stepno,
                    f"got {got_missing!r} want {want_missing!r} after {op}; present={present!r}")
    res.observe(stepno, op, [got_used[:2], got_missing[:2]])


def _walk_objs(comp, seen=None):
    """All component objects of a tree in document order (C-level reads only), each as often as it is reachable."""
    out = [comp]
    for sub in comp.__dict__.get("subcomponents", []):
        out += _walk_objs(sub)
    return out


def _actual_present(cal):
    out = []
    for x in _walk_objs(cal):
        if (x.__dict__.get("name") or getattr(type(x), "name", None) or "").upper() == "VTIMEZONE":
            raw = dict.get(x, "TZID")
            out.append(None if raw is None else str(raw))
    return out


def _resync(res, stepno, K):
    """Rebuild the model's shape from the tree after a completion: the property does not say where a VTIMEZONE is
    put, so the model follows the tree (by object identity); objects the model has not seen become new nodes.
    Returns the TZIDs of the VTIMEZONEs that are new."""
    node_of = {id(o): _node(K.root, nid) for nid, o in K.objs.items()}
    added = []
    serial = [0]

    def sync(node, depth=0):
        obj = K.objs.get(node.id)
        if obj is None or node.kind == "VTIMEZONE" or depth > 8:
            return
        kids = []
        for sub in obj.__dict__.get("subcomponents", []):
            n = node_of.get(id(sub))
            if n is None:
                if type(sub).__name__ != "Timezone" or dict.get(sub, "TZID") is None:
                    res.violate("C18/add_missing_timezones/appended-non-timezone", stepno, repr(type(sub)))
                    continue
                new_id = 100000 + stepno * 100 + serial[0]
                serial[0] += 1
                tzid = str(dict.get(sub, "TZID"))
                n = Node(new_id, "VTIMEZONE", tzid)
                K.objs[new_id] = sub
                node_of[id(sub)] = n
                added.append(tzid)
            kids.append(n)
        node.children = kids
        for c in kids:
            sync(c, depth + 1)
    sync(K.root)
    return added


def _amz(res, stepno, K, a):
    from datetime import date
    cal = K.obj
    used = m_used(K.root)
    present_before = m_present(K.root)
    missing_before = sorted(used - {p for p in present_before if p is not None})
    known = {t: _known(t) for t in missing_before}
    kwargs = {}
    if a["window"]:
        wk = a.get("wkind", "date")
        if wk == "date":
            lo, hi = date(*a["window"][0]), date(*a["window"][1])
        else:
            # "a datetime that is earlier than anything that happens in the calendar": e.g. event.start
            tzs = {"naive-dt": None, "aware-zi": ["zi", "Europe/Berlin"], "aware-pytz": ["pytz", "America/New_York"]}[wk]
            lo = to_py(["dt", *a["window"][0], 0, 0, 0, tzs])
            hi = to_py(["dt", *a["window"][1], 0, 0, 0, tzs])
            res.probe("window_given_as_datetime")
        kwargs = {"first_date": lo, "last_date": hi}
        res.probe("narrow_window")
    try:
        cal.add_missing_timezones(**kwargs)
    except Exception as e:
        why = "other"
        if {p for p in present_before if p is not None} - used or None in present_before \
                or len(present_before) != len(set(present_before)):
            why = "query-failed"
        res.violate(f"C18/add_missing_timezones/raised:{type(e).__name__}:{why}", stepno, repr(e)[:300])
        return
    # what was added, wherever it was put (the model follows the tree's order)
    app_ids = _resync(res, stepno, K)
    for t in missing_before:
        cnt = app_ids.count(t)
        if known[t]:
            if cnt != 1:
                res.violate("C18/add_missing_timezones/known-id-count", stepno,
                            f"id {t!r} is known to the provider but {cnt} VTIMEZONEs were added")
            else:
                res.probe("amz_added")
        else:
            res.probe("amz_skipped_unknown")
            if cnt != 0:
                res.violate("C18/add_missing_timezones/unknown-id-added", stepno, f"id {t!r} unknown, {cnt} added")
    extra = [t for t in app_ids if t not in missing_before]
    if extra:
        res.violate("C18/add_missing_timezones/added-not-missing", stepno, f"added {extra!r}")
    # exactly one VTIMEZONE per known used id, counted in the tree itself (anywhere in the calendar)
    present_after = _actual_present(cal)
    for t in missing_before:
        if known[t] and present_after.count(t) != 1:
            res.violate("C18/add_missing_timezones/not-exactly-one", stepno, f"{t!r}: {present_after.count(t)}")
    if sorted(map(str, present_after)) != sorted(map(str, m_present(K.root))):
        res.violate("C18/add_missing_timezones/vtimezones-differ-from-model", stepno,
                    f"tree {present_after!r} model {m_present(K.root)!r}")
    # repeating the call adds nothing
    n_before = len(_walk_objs(cal))
    try:
        cal.add_missing_timezones(**kwargs)
    except Exception as e:
        res.violate(f"C18/add_missing_timezones/second-call-raised:{type(e).__name__}", stepno, repr(e)[:300])
        return
    if len(_walk_objs(cal)) != n_before:
        again = _resync(res, stepno + 50, K)
        res.violate("C18/add_missing_timezones/not-idempotent", stepno, f"second call added {again!r}")
    res.observe(stepno, "amz", [sorted(app_ids), sorted(t for t in missing_before if not known[t])])


def simplify_step(step):
    c, op, a = step
    if op == "add_comp" and a["props"]:
        for i in range(len(a["props"])):
            yield [c, op, dict(a, props=a["props"][:i] + a["props"][i + 1:])]
    if op == "add_comp" and a["via"] == "parse":
        yield [c, op, dict(a, via="api", props=[dict(p, tzkind="param") for p in a["props"]])]
    if op == "amz" and a["window"]:
        yield [c, op, dict(a, window=None)]
    if op == "add_vtz" and a["via"] == "parse":
        yield [c, op, dict(a, via="api")]
    if op == "edit_vtz" and a["how"] == "pop+add":
        yield [c, op, dict(a, how="setitem")]
