"""Channel fault models applied to a stored document (bytes) before its next delivery.

Every fault is a pure function of (document bytes, literal parameters); `draw(rng, doc, kind, other)`
draws the parameters from the run's PRNG, `apply(doc, fault)` re-applies them when a trace is
replayed.  A fault *fires* when it changed at least one byte.
"""
import re

KINDS = ["run", "torn", "flip", "garbage", "lose_line", "dup_line", "swap_lines", "lose_block", "dup_block",
         "move_block", "interleave", "concat", "refold", "hostile_field", "token_subst"]

HOSTILE_TZIDS = ["America", "../../etc/passwd", "/etc/passwd", "a" * 300, "", "Europe/Berlin\x00x",
                 "W. Europe Standard Time", "Ünïcode/Zöne", "A,B", "posix/Europe/Berlin", "Etc/GMT+25",
                 "UTC", "localtime", ".", "..", "Europe/", "Europe//Berlin", "CON", "%s%n", "Sim/A", "/Sim/A",
                 "Europe/Berlin/", "europe/berlin", "Zulu", "America/Argentina", "x" * 5000, "퟿",
                 "Asia/Kolkata ", " ", "~", "right/UTC", "tzdata.zi", "zone.tab", "Factory", "SystemV/AST4",
                 # many path segments: one package import each when zoneinfo looks into the tzdata package
                 "/".join(["a"] * 260), ".".join(["b"] * 400), "Europe/" * 300 + "Berlin", "x/" * 2000,
                 # globally unique ids as calendar programs write them, complete and cut short
                 "/mozilla.org/20050126_1/Europe/Berlin", "/mozilla.org/20050126_1", "/mozilla.org/",
                 "/freeassociation.sourceforge.net/Tzfile/Europe/Berlin", "/freeassociation.sourceforge.net/",
                 "/softwarestudio.org/Olson_20011030_5/", "/citadel.org/20190914_1/Europe", "Citadel.org", "/inverse.ca/",
                 "/", "//", "/a/b"]
HOSTILE_OFFSETS = ["+2500", "-0000", "+ab12", "+010", "+01000000", "", "+9999", "-2359", "+235959", "0100", "+24"]
HOSTILE_DATES = ["20230105T101500Z/202301", "120000/133000", "202301/20230105T101500Z", "20230105T101500Z/1230000",
                 "20200101/20200102", "20200101/P1D", "20200101/20200102T000000Z", "20200101T000000Z/20200102",
                 "99991231T235959Z/PT1H", "99991231T235959Z/P1D", "00010101T000000Z/-P1D", "99991231T235959/PT1S",
                 "20200101T000000Z/P999999999D", "99991231", "00010101", "99991231T235959", "00010101T000000",
                 "00000000", "20200230", "99991231T235959Z", "2020-03-10", "20200310T250000", "10000101T000000",
                 "20200310T100000ZZ", "20200310T", "T100000", "0001-01-01", "20200310T100000+0100", "",
                 "19700101T000000", "20380119T031408Z", "99999999T999999", "20200310T100000Z/PT1H",
                 "20200310T100000/20200310T090000", "20200310T100000Z/20200310T110000", "P1D", "-P", "PT",
                 # values of other DATE-TIME-like types where a DATE-TIME is expected: TIME, with and without Z
                 "100000", "100000Z", "235959", "1000000"]
HOSTILE_URIS = ["file://server\\new", "mailto:a\\nb@example.com", "mailto:a\\Nb@example.com", "http://x/\\,\\;",
                "mailto:a\\\\nb@example.com", "", "mailto:", "http://x/%2C%3B%5C", "cid:<a\"b>", "data:;base64,%%%",
                "urn:x:\\", "http://x/\x01", "mailto:ü@exämple.com"]
HOSTILE_TEXTS = ["\\", "\\n\\N", "a\\;b\\,c", "%2C%5C%3B%3A", "\\\\\\", "\\x", "a,b;c:d", "\"quoted\"", "\\N\\n\\\\n", "", " ",
                 "line1\\nBEGIN:VEVENT\\nEND:VEVENT", "\x7f\x1b", "%", "%2", "\\%2C"]
HOSTILE_DURATIONS = ["P", "PT", "-P1W1D", "P1Y", "PT1H1D", "P-1D", "P1.5D", "P999999999999D", "+P", "p1d",
                     "PT999999999999999999999S", "-P99999999999W", "P0D", "PT0S", "-PT0S", "P1DT", "P1W2D", "PT1M1H",
                     "P999999999D", "PT86400S", "P١D", "P1D ", " P1D", "P1DT1H1M1S1", "PT1H30M15.5S",
                     # the ends of the timedelta range are not symmetric
                     "-P999999999DT1S", "-P999999999D", "P999999999DT23H59M59S", "-P142857142W6DT1H", "P999999999DT24H"]
HOSTILE_NUMBERS = ["", "1e400", "NaN", "-", "+", "1_000", "٣", "99999999999999999999999999999999999999", "0x10",
                   "1.5", "-0", "+7", " 7", "7 ", "١٢٣", "1e3", "inf", "−1"]
HOSTILE_RULES = ["FREQ=DAILY", "FREQ=DAILY;UNTIL=20000101T000000Z", "FREQ=WEEKLY", "FREQ=DAILY;BYMONTH=1,2,3,4,5,6",
                 "FREQ=SECONDLY", "FREQ=YEARLY;INTERVAL=0", "FREQ=DAILY;INTERVAL=0;BYMONTH=8;BYDAY=-1MO",
                 "FREQ=DAILY;COUNT=99999999", "FREQ=YEARLY;UNTIL=99991231T235959Z",
                 "FREQ=MINUTELY;BYDAY=2SU;BYMONTH=3", "FREQ=HOURLY;INTERVAL=1;BYDAY=2SU;BYMONTH=3",
                 "FREQ=YEARLY;BYSETPOS=400", "FREQ=", "", "FREQ=YEARLY;BYDAY=8SU", "FREQ=YEARLY;BYMONTH=13",
                 "FREQ=YEARLY;COUNT=-1", "FREQ=YEARLY;BYEASTER=0", "FREQ=WEEKLY;WKST=XX", "FREQ=YEARLY;INTERVAL=-1",
                 "FREQ=MONTHLY;INTERVAL=0", "FREQ=YEARLY;BYMONTH=3;BYDAY=-1SU;UNTIL=20200101", "FREQ=YEARLY;;",
                 "FREQ=YEARLY;BYYEARDAY=400", "FREQ=YEARLY;BYWEEKNO=60", "FREQ=YEARLY;UNTIL=20200101T000000",
                 "RSCALE=GREGORIAN;FREQ=YEARLY;SKIP=OMIT", "FREQ=YEARLY;BYMONTH=5L", "FREQ=DAILY;BYHOUR=25",
                 # UNTIL decoded by the combined date/time/duration/period decoder: other value kinds
                 "FREQ=DAILY;UNTIL=200803", "FREQ=DAILY;UNTIL=123456Z", "FREQ=DAILY;UNTIL=P1D",
                 "FREQ=DAILY;UNTIL=20200101T000000Z/PT1H", "FREQ=DAILY;UNTIL=20200101T000000Z/20200102T000000",
                 "FREQ=DAILY;UNTIL=-PT1H;COUNT=+2", "FREQ=DAILY;BYDAY=+1MO,-53SU,0TU", "FREQ=DAILY;WKST=1MO",
                 "FREQ=DAILY;X-UNKNOWN=a\\,b;BYDAY=MO",
                 # a rule part written twice
                 "FREQ=MONTHLY;BYMONTHDAY=1;BYMONTHDAY=15", "FREQ=YEARLY;BYMONTH=3;bymonth=10;BYDAY=-1SU",
                 "FREQ=DAILY;BYHOUR=1;BYHOUR=2;BYDAY=MO;BYDAY=WE", "FREQ=DAILY;COUNT=1;COUNT=2;INTERVAL=1;INTERVAL=2",
                 "FREQ=YEARLY;FREQ=DAILY;BYSETPOS=1;BYSETPOS=-1;WKST=MO;WKST=SU"]
# whole parameter sections (what stands between the property name and the colon)
HOSTILE_PARAMS = [";CN=a^nb", ';MEMBER="mailto:a@x.org","mailto:b^n@x.org"', ";X-P=one,two^nlines", ";X=^^,^'", ";X=a^,b",
                  ";X=^n,^N", ';CN="a\\nb"', ';X=a,b,"c,d"', ";X=", ";=x", ';X="a"b', ";X=a;X=b", ";X=a;x=b,c", ";TZID=",
                  ";VALUE=", ";ENCODING=BASE64", ";X=\t", ";CN=%0A,x", ';X="', ";X=,", ";X=,,", ';X="",""', ";;", ";X",
                  ';X=a\x00b,c', ";X=\xef\xbb\xbfa,b", ';DELEGATED-TO="mailto:a@x.org",mailto:b@x.org,"mailto:a@x.org"',
                  ";X=" + "a," * 400 + "a", ";" + ";".join(f"X{i}=v" for i in range(200)), ';X="^n","^\'"', ";X='a','b'"]
HOSTILE_COMPONENTS = ["DAYLIGHT", "STANDARD", "VEVENT", "VTIMEZONE", "VALARM", "VCALENDAR", "VFREEBUSY", "X-UNKNOWN", "",
                      "daylight", "VTODO"]
TOKENS = {
    b"FREQ=YEARLY": [b"FREQ=SECONDLY", b"FREQ=MINUTELY", b"FREQ=HOURLY", b"FREQ=DAILY;INTERVAL=0", b"FREQ=", b"FREQ=NEVER"],
    b"FREQ=MONTHLY": [b"FREQ=SECONDLY", b"FREQ=YEARLY;BYSECOND=1,2,3"],
    b"FREQ=WEEKLY": [b"FREQ=SECONDLY", b"FREQ=MINUTELY;COUNT=99999999"],
    b"FREQ=DAILY": [b"FREQ=SECONDLY", b"FREQ=DAILY;UNTIL=x"],
    b"BEGIN:VEVENT": [b"BEGIN:VTIMEZONE", b"BEGIN:VTODO", b"BEGIN:STANDARD", b"BEGIN:VCALENDAR", b"BEGIN:", b"begin:vevent"],
    b"END:VEVENT": [b"END:VTIMEZONE", b"END:VTODO", b"END:VCALENDAR", b"END:", b"END:VEVENT\r\nEND:VEVENT"],
    b"BEGIN:VTIMEZONE": [b"BEGIN:VEVENT", b"BEGIN:STANDARD", b"BEGIN:DAYLIGHT", b"BEGIN:X-TZ"],
    b"END:VTIMEZONE": [b"END:VEVENT", b"END:STANDARD", b"END:VCALENDAR"],
    b"BEGIN:STANDARD": [b"BEGIN:DAYLIGHT", b"BEGIN:VEVENT", b"BEGIN:VTIMEZONE", b"BEGIN:VALARM"],
    b"END:STANDARD": [b"END:DAYLIGHT", b"END:VTIMEZONE"],
    b"BEGIN:DAYLIGHT": [b"BEGIN:STANDARD", b"BEGIN:VTODO"],
    b"END:DAYLIGHT": [b"END:STANDARD", b"END:VTIMEZONE"],
    b"BEGIN:VALARM": [b"BEGIN:VEVENT", b"BEGIN:VTIMEZONE"],
    b"VALUE=DATE": [b"VALUE=PERIOD", b"VALUE=DATE-TIME", b"VALUE=DURATION", b"VALUE=BINARY", b"VALUE="],
    b"DTSTART": [b"DTEND", b"RDATE", b"FREEBUSY", b"DURATION", b"TZOFFSETFROM", b"TRIGGER", b"RRULE", b"GEO", b"SEQUENCE",
                 b"EXDATE", b"DUE", b"TZID", b"ATTENDEE", b"CATEGORIES", b"RECURRENCE-ID", b"dtstart", b"X-DTSTART"],
    b"DTEND": [b"DTSTART", b"DURATION", b"FREEBUSY", b"RDATE", b"TZOFFSETTO"],
    b"RRULE": [b"DTSTART", b"EXRULE", b"RDATE", b"TZOFFSETTO", b"FREEBUSY"],
    b"TZOFFSETFROM": [b"TZOFFSETTO", b"DTSTART", b"DURATION", b"X-OFF"],
    b"TZOFFSETTO": [b"TZOFFSETFROM", b"TZNAME", b"RRULE"],
    b"TZID": [b"TZNAME", b"DTSTART", b"X-TZID", b"TZURL"],
    b"SUMMARY": [b"DTSTART", b"GEO", b"RRULE", b"SEQUENCE", b"DURATION", b"FREEBUSY", b"TZOFFSETFROM", b"ATTACH;VALUE=BINARY"],
    b"UID": [b"DTSTAMP", b"PRIORITY", b"TRIGGER", b"REPEAT"],
    b"TRIGGER": [b"DTSTART", b"DURATION", b"REPEAT"],
    b"FREEBUSY": [b"DTSTART", b"RDATE", b"RRULE"],
}

_LINE = re.compile(rb"\r\n|\n")


def _lines(doc):
    """Physical lines with their terminators."""
    out = []
    pos = 0
    for m in _LINE.finditer(doc):
        out.append(doc[pos:m.end()])
        pos = m.end()
    if pos < len(doc):
        out.append(doc[pos:])
    return out


def _blocks(lines):
    """(start, end) index pairs of BEGIN..END blocks (matching by nesting, names ignored)."""
    stack, out = [], []
    for i, ln in enumerate(lines):
        u = ln.upper()
        if u.startswith(b"BEGIN:"):
            stack.append(i)
        elif u.startswith(b"END:") and stack:
            out.append((stack.pop(), i + 1))
    return out


def draw(rng, doc, kind, other=b""):
    """Literal parameters for one fault of `kind` on `doc` (a dict with 'kind'), or None if not applicable."""
    n = len(doc)
    lines = _lines(doc)
    if n == 0:
        return None
    if kind == "torn":
        style = rng.choice(["anywhere", "line-boundary", "mid-utf8"])
        if style == "line-boundary" and len(lines) > 1:
            k = sum(len(x) for x in lines[:rng.randrange(1, len(lines))])
        elif style == "mid-utf8":
            idx = [i for i, b in enumerate(doc) if b >= 0x80]
            k = rng.choice(idx) if idx else rng.randrange(n)
        else:
            k = rng.randrange(n)
        return {"kind": kind, "k": k}
    if kind == "flip":
        return {"kind": kind, "at": [[rng.randrange(n), rng.randrange(1, 256)] for _ in range(rng.randint(1, 4))]}
    if kind == "run":
        # a stuck producer / a sector of one repeated pattern: a long run of one short byte pattern
        pat = rng.choice(["\n", "\r\n", "\r", " ", "\t", "\\", '"', ";", ",", ":", "=", "\n ", "\r\n ", "\\n", "\\,",
                          "%", "%2C", "\x00", "A", "=\"", ";X=", "\n\r", "BEGIN:X\r\n", "END:X\r\n", "\xc3", "\xef\xbb\xbf"])
        return {"kind": kind, "k": rng.randrange(n + 1), "pat": pat, "count": rng.choice([50, 500, 5000, 20000])}
    if kind == "garbage":
        ln = rng.randint(1, 64)
        return {"kind": kind, "k": rng.randrange(n), "bytes": [rng.randrange(256) for _ in range(ln)],
                "overwrite": rng.random() < 0.5}
    if kind in ("lose_line", "dup_line"):
        return {"kind": kind, "i": rng.randrange(len(lines))}
    if kind == "swap_lines":
        if len(lines) < 2:
            return None
        i = rng.randrange(len(lines))
        j = min(len(lines) - 1, i + rng.choice([1, 1, 1, 2, 5])) if rng.random() < 0.7 else rng.randrange(len(lines))
        return {"kind": kind, "i": i, "j": j}
    if kind in ("lose_block", "dup_block", "move_block"):
        bl = _blocks(lines)
        if not bl:
            return None
        b = rng.randrange(len(bl))
        f = {"kind": kind, "block": b}
        if kind == "move_block":
            f["to"] = rng.randrange(len(lines) + 1)
        return f
    if kind == "interleave":
        if not other:
            return None
        return {"kind": kind, "other": other.decode("latin-1"), "seed": rng.randrange(1 << 30)}
    if kind == "concat":
        if not other:
            return None
        return {"kind": kind, "other": other.decode("latin-1"), "sep": rng.choice(["", "\r\n", "\n", " "])}
    if kind == "refold":
        v = rng.choice(["lf", "stray-cr", "insert-fold", "insert-fold-tab", "remove-fold", "cr-only", "trailing-blank",
                        "bom", "double-bom"])
        return {"kind": kind, "variant": v, "k": rng.randrange(n)}
    if kind == "hostile_field":
        cands = []
        for i, ln in enumerate(lines):
            u = ln.upper()
            if b"TZID=" in u:
                cands.append((i, "tzid-param"))
            if u.startswith(b"TZID"):
                cands.append((i, "tzid-prop"))
            if u.startswith(b"TZOFFSET"):
                cands.append((i, "offset"))
            if u.startswith((b"DURATION", b"TRIGGER")):
                cands.append((i, "duration"))
            if u.startswith((b"SEQUENCE", b"PRIORITY", b"PERCENT-COMPLETE", b"REPEAT", b"GEO")):
                cands.append((i, "number"))
            if u.startswith((b"URL", b"ATTACH", b"ATTENDEE", b"ORGANIZER", b"TZURL")):
                cands.append((i, "uri"))
            if u.startswith((b"SUMMARY", b"DESCRIPTION", b"LOCATION", b"CATEGORIES", b"COMMENT", b"TZNAME")):
                cands.append((i, "text"))
            if u.startswith((b"RRULE", b"EXRULE")):
                cands.append((i, "rrule"))
                cands.append((i, "rrule"))
            if u.startswith(b"BEGIN:"):
                cands.append((i, "component"))
            if u.startswith((b"ATTENDEE", b"ORGANIZER", b"SUMMARY", b"DTSTART", b"RDATE", b"ATTACH", b"X-")):
                cands.append((i, "params"))
            if u.startswith((b"DTSTART", b"DTEND", b"DUE", b"RDATE", b"EXDATE", b"RECURRENCE-ID", b"FREEBUSY", b"TRIGGER",
                             b"DTSTAMP", b"CREATED", b"LAST-MODIFIED", b"COMPLETED")):
                cands.append((i, "date"))
        if not cands:
            return None
        i, what = rng.choice(cands)
        pool = {"tzid-param": HOSTILE_TZIDS, "tzid-prop": HOSTILE_TZIDS, "offset": HOSTILE_OFFSETS,
                "date": HOSTILE_DATES, "rrule": HOSTILE_RULES, "duration": HOSTILE_DURATIONS,
                "number": HOSTILE_NUMBERS, "uri": HOSTILE_URIS, "text": HOSTILE_TEXTS,
                "component": HOSTILE_COMPONENTS, "params": HOSTILE_PARAMS}[what]
        return {"kind": kind, "i": i, "what": what, "value": rng.choice(pool)}
    if kind == "token_subst":
        present = [t for t in sorted(TOKENS) if t in doc]
        if not present:
            return None
        t = rng.choice(present)
        occ = [m.start() for m in re.finditer(re.escape(t), doc)]
        return {"kind": kind, "token": t.decode("latin-1"), "occ": rng.randrange(len(occ)),
                "by": rng.choice(TOKENS[t]).decode("latin-1")}
    raise ValueError(kind)


def apply(doc, f):
    kind = f["kind"]
    lines = _lines(doc)
    if kind == "torn":
        return doc[:f["k"]]
    if kind == "flip":
        b = bytearray(doc)
        for pos, mask in f["at"]:
            if pos < len(b):
                b[pos] ^= mask
        return bytes(b)
    if kind == "run":
        k = min(f["k"], len(doc))
        return doc[:k] + f["pat"].encode("latin-1") * f["count"] + doc[k:]
    if kind == "garbage":
        g = bytes(f["bytes"])
        k = min(f["k"], len(doc))
        return doc[:k] + g + (doc[k + len(g):] if f["overwrite"] else doc[k:])
    if kind == "lose_line":
        i = f["i"]
        return b"".join(lines[:i] + lines[i + 1:]) if i < len(lines) else doc
    if kind == "dup_line":
        i = f["i"]
        return b"".join(lines[:i + 1] + lines[i:]) if i < len(lines) else doc
    if kind == "swap_lines":
        i, j = f["i"], f["j"]
        if i < len(lines) and j < len(lines):
            lines[i], lines[j] = lines[j], lines[i]
        return b"".join(lines)
    if kind in ("lose_block", "dup_block", "move_block"):
        bl = _blocks(lines)
        if f["block"] >= len(bl):
            return doc
        s, e = bl[f["block"]]
        blk = lines[s:e]
        if kind == "lose_block":
            return b"".join(lines[:s] + lines[e:])
        if kind == "dup_block":
            return b"".join(lines[:e] + blk + lines[e:])
        rest = lines[:s] + lines[e:]
        to = min(f["to"], len(rest))
        return b"".join(rest[:to] + blk + rest[to:])
    if kind == "interleave":
        import random
        g = random.Random(f["seed"])
        a, b = lines, _lines(f["other"].encode("latin-1"))
        out = []
        i = j = 0
        while i < len(a) or j < len(b):
            take_a = j >= len(b) or (i < len(a) and g.random() < len(a) / (len(a) + len(b) + 1e-9))
            # writers append in bursts
            burst = g.randint(1, 6)
            for _ in range(burst):
                if take_a and i < len(a):
                    out.append(a[i]); i += 1
                elif not take_a and j < len(b):
                    out.append(b[j]); j += 1
        return b"".join(out)
    if kind == "concat":
        return doc + f["sep"].encode() + f["other"].encode("latin-1")
    if kind == "refold":
        v, k = f["variant"], min(f["k"], max(len(doc) - 1, 0))
        if v == "lf":
            return doc.replace(b"\r\n", b"\n")
        if v == "cr-only":
            return doc.replace(b"\r\n", b"\r")
        if v == "stray-cr":
            return doc[:k] + b"\r" + doc[k:]
        if v == "insert-fold":
            return doc[:k] + b"\r\n " + doc[k:]
        if v == "insert-fold-tab":
            return doc[:k] + b"\n\t" + doc[k:]
        if v == "remove-fold":
            return doc.replace(b"\r\n ", b"", 1)
        if v == "trailing-blank":
            return doc + b"\r\n\r\n \r\n"
        if v == "bom":
            return b"\xef\xbb\xbf" + doc
        return b"\xef\xbb\xbf\xef\xbb\xbf" + doc
    if kind == "hostile_field":
        i = f["i"]
        if i >= len(lines):
            return doc
        ln = lines[i]
        val = f["value"].encode("utf-8", "surrogatepass")
        eol = b"\r\n" if ln.endswith(b"\r\n") else (b"\n" if ln.endswith(b"\n") else b"")
        body = ln[:len(ln) - len(eol)]
        if f["what"] == "params":
            m = re.match(rb"[^;:]*", body)
            inq, c = False, -1
            for k2, ch in enumerate(body):
                if ch == 0x22:
                    inq = not inq
                elif ch == 0x3a and not inq:
                    c = k2
                    break
            if c < 0:
                return doc
            lines[i] = body[:m.end()] + val + body[c:] + eol
            return b"".join(lines)
        if f["what"] == "tzid-param":
            m = re.search(rb"(?i)TZID=(\"[^\"]*\"|[^;:]*)", body)
            if not m:
                return doc
            body = body[:m.start()] + b"TZID=" + val + body[m.end():]
        else:
            c = body.find(b":")
            if c < 0:
                return doc
            body = body[:c + 1] + val
        lines[i] = body + eol
        return b"".join(lines)
    if kind == "token_subst":
        t = f["token"].encode("latin-1")
        occ = [m.start() for m in re.finditer(re.escape(t), doc)]
        if f["occ"] >= len(occ):
            return doc
        p = occ[f["occ"]]
        return doc[:p] + f["by"].encode("latin-1") + doc[p + len(t):]
    raise ValueError(kind)
