"""The simulated process: the real icalendar plus the seams the harness owns.

Seams (DESIGN.md section 2):
  S1 provider      icalendar.timezone.tzp            -> provider_switch()
  S2 zone cache    TZP.__tz_cache                    -> cache_ids() (read only), soft_restart()
  S3 tz database   zoneinfo TZPATH / tzdata wheel    -> tzdb_view()
  S4 hash seed     interpreter environment           -> owned by the orchestrator
"""
import os
import sys

_REPO_CHECKED = False


def assert_tree():
    """The worker must run the tree under test, not some installed copy."""
    global _REPO_CHECKED
    import icalendar
    want = os.path.realpath(os.path.join(os.environ.get("VERIF_REPO", "/repo"), "src"))
    got = os.path.realpath(os.path.dirname(os.path.dirname(icalendar.__file__)))
    if got != want:
        raise RuntimeError(f"icalendar imported from {got}, expected {want}")
    _REPO_CHECKED = True


def tzp():
    from icalendar.timezone import tzp as _tzp
    return _tzp


def provider_name():
    return tzp().name


def provider_switch(name):
    """S1: swap the process-wide provider; wipes S2 as the library does."""
    tzp().use(name)


def soft_restart():
    """A process restart in which only durable bytes survive.

    Keeps the provider (it is configuration), wipes the zone cache and the
    caches of the timezone libraries underneath.
    """
    name = provider_name()
    tzp().use(name)
    # a new process starts with an empty zone cache whatever the library's own reset logic does
    if hasattr(tzp(), "_TZP__tz_cache"):
        tzp()._TZP__tz_cache = {}
    try:
        import zoneinfo
        zoneinfo.ZoneInfo.clear_cache()
    except Exception:  # pragma: no cover
        pass
    try:
        import pytz
        pytz._tzinfo_cache.clear()
    except Exception:  # pragma: no cover
        pass
    try:
        import dateutil.tz
        dateutil.tz.gettz.cache_clear()
    except Exception:  # pragma: no cover
        pass


def cache_ids():
    """S2 (read only): cleaned ids currently in the process-wide zone cache, sorted."""
    cache = getattr(tzp(), "_TZP__tz_cache", None)
    if cache is None:
        return []
    return sorted(cache.keys())


def cache_get(clean_id):
    cache = getattr(tzp(), "_TZP__tz_cache", None) or {}
    return cache.get(clean_id)


# --- S3: tz database view ---------------------------------------------------

_ORIG_LOAD = None
_VIEW = "default"


def tzdb_view(view):
    """default | package-only (no TZPATH tree) | tzpath-only (tzdata wheel hidden)."""
    global _ORIG_LOAD, _VIEW
    import zoneinfo
    import zoneinfo._common as zc
    if _ORIG_LOAD is None:
        _ORIG_LOAD = zc.load_tzdata
    if view == "default":
        zoneinfo.reset_tzpath()
        zc.load_tzdata = _ORIG_LOAD
    elif view == "package-only":
        zoneinfo.reset_tzpath(to=[])
        zc.load_tzdata = _ORIG_LOAD
    elif view == "tzpath-only":
        zoneinfo.reset_tzpath()

        def hidden(key):
            raise zoneinfo.ZoneInfoNotFoundError(f"No time zone found with key {key}")
        zc.load_tzdata = hidden
    else:
        raise ValueError(view)
    zoneinfo.ZoneInfo.clear_cache()
    _VIEW = view


def reset_world(provider="zoneinfo"):
    """Start of every run: a fresh process as far as the library can tell."""
    if _VIEW != "default":
        tzdb_view("default")
    provider_switch(provider)
    soft_restart()
