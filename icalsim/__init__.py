"""icalsim - deterministic simulation with fault injection for collective/icalendar.

See /verif/DESIGN.md.  The package has two halves:

* the *orchestrator* (engine.py, run by /verif/check) which never looks at the
  library under test for its decisions: it derives seeds, fans runs out to
  worker interpreters, merges their reports, minimises and replays failures and
  writes the evidence file;
* the *worker* (worker.py) which hosts the real icalendar inside one simulated
  process and executes literal traces step by step against reference models.
"""
