import json
import os
import sys

from . import engine


def main(argv):
    if not argv:
        print(__doc__ or "usage: check run|replay|selftest ...")
        return 2
    cmd = argv[0]
    if cmd == "run":
        prop = argv[1]
        tier = os.environ.get("VERIF_TIER", "quick")
        if "--tier" in argv:
            tier = argv[argv.index("--tier") + 1]
        return engine.run_check(prop, tier)
    if cmd == "replay":
        path = argv[1]
        rp = json.load(open(path))
        ok, text = engine.replay_file(path)
        print(f"[icalsim] replay {path}: signature={rp['signature']}")
        print(f"[icalsim] result: {json.dumps(text)[:3000]}")
        if ok:
            print(f"VIOLATION property={rp['property']} replay={path}")
            return 1
        print("[icalsim] not reproduced on this tree")
        return 0
    if cmd == "selftest":
        from . import selftest
        return selftest.main(argv[1:])
    print(f"unknown command {cmd}")
    return 2
