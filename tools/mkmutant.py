#!/venv/bin/python
"""mkmutant.py NAME FILE OLD NEW [FILE OLD NEW ...] - write /verif/mutants/NAME.diff replacing OLD by NEW
(first occurrence, must exist) in /repo/FILE.  /repo itself is never modified."""
import difflib
import os
import sys

name = sys.argv[1]
rest = sys.argv[2:]
out = []
for i in range(0, len(rest), 3):
    f, old, new = rest[i:i + 3]
    old = old.encode().decode("unicode_escape")
    new = new.encode().decode("unicode_escape")
    src = open(os.path.join("/repo", f)).read()
    if old not in src:
        sys.exit(f"pattern not found in {f}: {old!r}")
    dst = src.replace(old, new, 1)
    out.extend(difflib.unified_diff(src.splitlines(True), dst.splitlines(True), "a/" + f, "b/" + f))
open(os.path.join("/verif/mutants", name + ".diff"), "w").write("".join(out))
print("wrote", name)
