#!/venv/bin/python
"""mkmutant.py NAME FILE OLD NEW [FILE OLD NEW ...] - write /verif/mutants/NAME.diff replacing OLD by NEW
(first occurrence, must exist) in /repo/FILE.  /repo itself is never modified."""
import difflib
import os
import sys

name = sys.argv[1]
rest = sys.argv[2:]
out = []
orig, cur = {}, {}
for i in range(0, len(rest), 3):
    f, old, new = rest[i:i + 3]
    old = old.encode().decode("unicode_escape")
    new = new.encode().decode("unicode_escape")
    if f not in cur:
        orig[f] = cur[f] = open(os.path.join("/repo", f)).read()
    if old not in cur[f]:
        sys.exit(f"pattern not found in {f}: {old!r}")
    cur[f] = cur[f].replace(old, new, 1)      # several replacements in one file accumulate
for f in orig:
    out.extend(difflib.unified_diff(orig[f].splitlines(True), cur[f].splitlines(True), "a/" + f, "b/" + f))
open(os.path.join("/verif/mutants", name + ".diff"), "w").write("".join(out))
print("wrote", name)
