#!/venv/bin/python
"""rebase_patch.py PATCH...: rewrite the context and removed lines of a stale patch after the small `fix:` commits in
/repo changed those very lines (the added lines, i.e. the seeded change itself, stay as written).  Seeds keep the
patch as delivered in patch.orig.diff."""
import os
import shutil
import sys

RULES = [
    ("and duration is not None and duration.seconds != 0:",
     "and duration is not None and (duration.seconds != 0 or duration.microseconds != 0):"),
    ("    def __init__(self, *args, **kwargs):", "    def __init__(self, /, *args, **kwargs):"),
    ("    def update(self, *args, **kwargs):", "    def update(self, /, *args, **kwargs):"),
]
for path in sys.argv[1:]:
    text = open(path).read()
    out = []
    for line in text.splitlines(True):
        if line[:1] in (" ", "-") and not line.startswith("---"):
            for old, new in RULES:
                if old in line:
                    line = line.replace(old, new)
        out.append(line)
    new = "".join(out)
    if new != text:
        if os.path.basename(path) == "patch.diff" and not os.path.exists(path.replace("patch.diff", "patch.orig.diff")):
            shutil.copy(path, path.replace("patch.diff", "patch.orig.diff"))
        open(path, "w").write(new)
        print("rebased", path)
