#!/bin/sh
# soak.sh [first_seed] [rounds]: thorough tier of every claimed property under successive VERIF_SEEDs.
# Writes one summary line per run to soak.log in the current directory; evidence/replays go to ./soak_ev.
first=${1:-101}; rounds=${2:-3}
mkdir -p soak_ev
seed=$first
i=0
while [ $i -lt $rounds ]; do
  for p in C04 C12 C10 C18 C16 C17; do
    VERIF_SEED=$seed VERIF_EVIDENCE_DIR=$PWD/soak_ev VERIF_REPLAY_DIR=$PWD/soak_ev ./check run $p --tier thorough > soak_${p}_${seed}.out 2>&1
    rc=$?
    echo "seed=$seed $p rc=$rc $(grep '^\[icalsim\] C' soak_${p}_${seed}.out | cut -c1-200)" >> soak.log
    grep "violation signature\|HARNESS-ERROR\|VIOLATION" soak_${p}_${seed}.out | cut -c1-400 >> soak.log
  done
  seed=$((seed+1)); i=$((i+1))
done
echo finished >> soak.log
