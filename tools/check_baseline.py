#!/venv/bin/python
"""Run the repository's pinned test suite (guard off: there are no hooks) and compare with BASELINE.json.
Exit 0 iff every test in stable_pass passed."""
import json
import os
import subprocess
import sys
import tempfile
import xml.etree.ElementTree as ET

repo = sys.argv[1] if len(sys.argv) > 1 else "/repo"
base = json.load(open("/root/.vp/BASELINE.json"))
with tempfile.TemporaryDirectory() as td:
    x = os.path.join(td, "junit.xml")
    subprocess.run(["/venv/bin/python", "-m", "pytest", "-ra", "-q", "-p", "no:cacheprovider", "--timeout=900",
                    "--continue-on-collection-errors", f"--junitxml={x}"], cwd=repo,
                   stdout=subprocess.DEVNULL, stderr=subprocess.DEVNULL,
                   env=dict(os.environ, PYTHONPATH=os.path.join(repo, "src")))
    passed = set()
    other = {}
    for tc in ET.parse(x).getroot().iter("testcase"):
        name = f"{tc.get('classname')}::{tc.get('name')}"
        bad = [c.tag for c in tc if c.tag in ("failure", "error", "skipped")]
        if bad:
            other[name] = bad[0]
        else:
            passed.add(name)
want = set(base["stable_pass"])
missing = sorted(want - passed)
print(f"passed={len(passed)} stable_pass={len(want)} missing_from_passed={len(missing)} "
      f"failed_or_skipped={len(other)}")
for m in missing[:20]:
    print("  NOT PASSED:", m, other.get(m))
for k, v in sorted(other.items()):
    if v != "skipped" and k not in want:
        print("  (not in baseline)", v, k)
sys.exit(1 if missing else 0)
