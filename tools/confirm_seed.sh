#!/bin/sh
# confirm_seed.sh <worktree> <name>: confirm a seeded change in its scratch worktree and store it under /verif/seeded/<name>/
# (1) demo exits non-zero with the change and 0 without; (2) the baseline suite gives the same result with and without.
set -u
W=$1; N=$2
D=/verif/seeded/$N
mkdir -p $D
cp $W/seed/patch.diff $W/seed/demo.py $W/seed/meta.json $D/ 2>/dev/null
cd $W
git diff --quiet -- src && { echo "no change applied in $W"; exit 2; }
PYTHONPATH=$W/src /venv/bin/python $W/seed/demo.py > /tmp/confirm_$N.with.log 2>&1; RC_WITH=$?
/tmp/tools/check_baseline.py $W > /tmp/confirm_$N.base_with.log 2>&1
git diff -- src > /tmp/confirm_$N.patch
git apply -R /tmp/confirm_$N.patch
PYTHONPATH=$W/src /venv/bin/python $W/seed/demo.py > /tmp/confirm_$N.without.log 2>&1; RC_WITHOUT=$?
if [ ! -f /tmp/confirm_reference_baseline.log ]; then /tmp/tools/check_baseline.py $W > /tmp/confirm_reference_baseline.log 2>&1; fi
git apply /tmp/confirm_$N.patch
SAME=no; if diff -q /tmp/confirm_$N.base_with.log /tmp/confirm_reference_baseline.log >/dev/null; then SAME=yes; fi
echo "$N: demo with change rc=$RC_WITH, without rc=$RC_WITHOUT; baseline identical to untouched worktree: $SAME ($(head -1 /tmp/confirm_$N.base_with.log))"
